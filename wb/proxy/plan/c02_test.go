package plan

// C02 monitor: cross-shard SELECT returns what one database holding all shards would return.
//
// For a (layout, data, statement) triple the statement is planned by the real BuildPlan, every
// rewritten per-shard statement is evaluated on its own physical table by rig R1 and fed
// through the real Plan.ExecuteIn (merge code); the reference answer is the original
// statement evaluated on the union of all shards. The oracle compares the two.

import (
	"fmt"
	"runtime"
	"sort"
	"strconv"
	"strings"
	"sync"
	"testing"

	"github.com/shopspring/decimal"

	"github.com/XiaoMi/Gaea/mysql"
	"github.com/XiaoMi/Gaea/parser"
	"github.com/XiaoMi/Gaea/parser/ast"
	"github.com/XiaoMi/Gaea/util"
	kit "github.com/XiaoMi/Gaea/verifkit"
)

// ---------------------------------------------------------------- oracle

var c02ClauseRank = map[string]int{"": 0, "order": 1, "nrows": 2, "rows": 3, "ncols": 4, "panic": 5}

func c02WireText(v interface{}) string {
	switch x := v.(type) {
	case int64:
		return strconv.FormatInt(x, 10)
	case uint64:
		return strconv.FormatUint(x, 10)
	case float64:
		return strconv.FormatFloat(x, 'f', -1, 64)
	case string:
		return x
	case []byte:
		return string(x)
	case decimal.Decimal:
		p := -x.Exponent()
		if p < 0 {
			p = 0
		}
		return x.StringFixed(p)
	}
	return fmt.Sprintf("%v", v)
}

// c02CanonIface canonicalises a value of the proxy's answer for a reference column of the
// given kind: numbers numerically, strings by their wire text.
func c02CanonIface(v interface{}, kind c02Kind) string {
	if v == nil {
		return "N"
	}
	txt := c02WireText(v)
	if kind == c02Int || kind == c02Dec || kind == c02Flt {
		if d, err := decimal.NewFromString(txt); err == nil {
			return "n" + c02NormDec(d)
		}
	}
	if kind == c02Null {
		switch v.(type) {
		case int64, uint64, float64, decimal.Decimal:
			if d, err := decimal.NewFromString(txt); err == nil {
				return "n" + c02NormDec(d)
			}
		}
	}
	return "s" + strconv.Itoa(len(txt)) + ":" + txt
}

func c02CanonRef(v c02Val, kind c02Kind) string {
	if v.k == c02Null {
		return "N"
	}
	if kind == c02Str && v.k != c02Str {
		t := v.text(c02Type{dec: 0})
		return "s" + strconv.Itoa(len(t)) + ":" + t
	}
	return v.canon()
}

// c02Compare decides whether the proxy's rows are a valid answer given the reference's
// un-limited, sorted answer. Returns the failing oracle clause ("" = agrees) and a detail.
//
// Rule: let U be the reference rows sorted by the ORDER BY keys and cut into maximal runs of
// equal keys (one run without ORDER BY). The valid answers are exactly the windows
// [offset, offset+count) of some ordering of U that keeps the runs in place. Hence: every
// row of the answer must be a row of U with multiplicity (clause rows - this catches
// partially aggregated rows under a per-shard LIMIT), the size must be that of the window
// (nrows), and the part of the answer that falls into a run must be a sub-multiset of that
// run (order). Without LIMIT this is multiset equality plus order where ORDER BY fixes it.
func c02Compare(ref *c02RS, res *mysql.Result) (string, string) {
	if res == nil || res.Resultset == nil {
		return "ncols", "no result set returned"
	}
	if len(res.Fields) != len(ref.names) {
		return "ncols", fmt.Sprintf("answer has %d columns, reference %d", len(res.Fields), len(ref.names))
	}
	kinds := make([]c02Kind, len(ref.types))
	for i, t := range ref.types {
		kinds[i] = t.kind
	}
	prow := make([]string, len(res.Values))
	for i, r := range res.Values {
		if len(r) != len(ref.names) {
			return "ncols", fmt.Sprintf("row %d has %d values, reference has %d columns", i, len(r), len(ref.names))
		}
		var sb strings.Builder
		for j, v := range r {
			sb.WriteString(c02CanonIface(v, kinds[j]))
			sb.WriteByte('|')
		}
		prow[i] = sb.String()
	}
	urow := make([]string, len(ref.rows))
	all := map[string]int{}
	for i, r := range ref.rows {
		var sb strings.Builder
		for j, v := range r {
			sb.WriteString(c02CanonRef(v, kinds[j]))
			sb.WriteByte('|')
		}
		urow[i] = sb.String()
		all[urow[i]]++
	}
	// rows: sub-multiset of the un-limited reference answer
	left := map[string]int{}
	for k, v := range all {
		left[k] = v
	}
	for i, p := range prow {
		if left[p] == 0 {
			why := "is not a row of the reference answer"
			if all[p] > 0 {
				why = "occurs more often than in the reference answer"
			}
			return "rows", fmt.Sprintf("answer row %d %s %s (answer %d rows, reference %d rows)", i, p, why, len(prow), len(urow))
		}
		left[p]--
	}
	// nrows
	n := int64(len(urow))
	lo, hi := int64(0), n
	if ref.hasLimit {
		lo = ref.offset
		if lo > n {
			lo = n
		}
		hi = lo + ref.count
		if hi > n {
			hi = n
		}
	}
	if int64(len(prow)) != hi-lo {
		miss := ""
		if !ref.hasLimit {
			for k, v := range left {
				if v > 0 {
					miss = " e.g. missing " + k
					break
				}
			}
		}
		return "nrows", fmt.Sprintf("answer has %d rows, expected %d (reference %d rows, window [%d,%d))%s", len(prow), hi-lo, n, lo, hi, miss)
	}
	// order: runs of equal keys
	start := int64(0)
	for start < n {
		end := start + 1
		if ref.keys == nil {
			end = n
		} else {
			for end < n {
				same := true
				for j := range ref.keys[start] {
					c, _ := c02CmpNull(ref.keys[start][j], ref.keys[end][j])
					if c != 0 {
						same = false
						break
					}
				}
				if !same {
					break
				}
				end++
			}
		}
		wlo, whi := start, end
		if wlo < lo {
			wlo = lo
		}
		if whi > hi {
			whi = hi
		}
		if wlo < whi {
			run := map[string]int{}
			for i := start; i < end; i++ {
				run[urow[i]]++
			}
			for i := wlo; i < whi; i++ {
				p := prow[i-lo]
				if run[p] == 0 {
					return "order", fmt.Sprintf("answer row %d %s does not belong at this position: the reference has rows with ORDER BY key run [%d,%d) there", i-lo, p, start, end)
				}
				run[p]--
			}
		}
		start = end
	}
	return "", ""
}

// ---------------------------------------------------------------- one case

type c02Outcome struct {
	status string // ok | fail | rejected | skipped
	clause string
	detail string
	stmts  int
	sent   []string
	nref   int
	nres   int
}

// c02Prepared is a statement parsed and planned once for a layout; like a cached plan of
// the proxy it is executed several times (here: against several data sets).
type c02Prepared struct {
	sql      string
	skip     string // the rig cannot handle the statement
	refStmt  ast.StmtNode
	plan     Plan
	planErr  error
	panicked string
	stmts    map[string]ast.StmtNode // parsed per-shard statements
}

func c02Prepare(cfg *c02Config, sql string, ps *parser.Parser) *c02Prepared {
	pr := &c02Prepared{sql: sql, stmts: map[string]ast.StmtNode{}}
	var err error
	pr.refStmt, err = ps.ParseOneStmt(sql, "", "")
	if err != nil {
		pr.skip = "generated statement does not parse: " + err.Error()
		return pr
	}
	stmt, err := ps.ParseOneStmt(sql, "", "") // BuildPlan rewrites the tree in place: use a second one
	if err != nil {
		pr.skip = err.Error()
		return pr
	}
	func() {
		defer func() {
			if p := recover(); p != nil {
				pr.panicked = fmt.Sprintf("panic in BuildPlan: %v", p)
			}
		}()
		pr.plan, pr.planErr = BuildPlan(stmt, cfg.phyDBs, cfg.db, sql, cfg.rt, nil, nil)
	}()
	return pr
}

func c02RunPrepared(w *c02World, pr *c02Prepared, ps *parser.Parser) (out c02Outcome) {
	if pr.skip != "" {
		return c02Outcome{status: "skipped", detail: pr.skip}
	}
	rctx := &c02Ctx{store: w.store, slice: c02RefSlice, db: w.cfg.db}
	ref, err := rctx.evalStmt(pr.refStmt, false)
	if err != nil {
		return c02Outcome{status: "skipped", detail: "reference: " + err.Error()}
	}
	out.nref = len(ref.rows)
	if pr.panicked != "" {
		return c02Outcome{status: "fail", clause: "panic", detail: pr.panicked, nref: out.nref}
	}
	if pr.planErr != nil {
		return c02Outcome{status: "rejected", detail: pr.planErr.Error(), nref: out.nref}
	}
	ex := &c02Exec{store: w.store, parser: ps, cache: pr.stmts}
	var res *mysql.Result
	func() {
		defer func() {
			if p := recover(); p != nil {
				out.status, out.clause, out.detail = "fail", "panic", fmt.Sprintf("panic: %v", p)
			}
		}()
		res, err = pr.plan.ExecuteIn(util.NewRequestContext(), ex)
	}()
	out.stmts, out.sent = ex.stmts, ex.sent
	if out.status == "fail" {
		return out
	}
	if err != nil {
		if ex.unsupported != nil {
			out.status, out.detail = "skipped", ex.unsupported.Error()
			return out
		}
		out.status, out.detail = "rejected", err.Error()
		return out
	}
	if res != nil && res.Resultset != nil {
		out.nres = len(res.Values)
	}
	clause, detail := c02Compare(ref, res)
	if clause == "" {
		out.status = "ok"
		return out
	}
	out.status, out.clause, out.detail = "fail", clause, detail
	return out
}

func c02RunCase(w *c02World, sql string, ps *parser.Parser) c02Outcome {
	return c02RunPrepared(w, c02Prepare(w.cfg, sql, ps), ps)
}

// ---------------------------------------------------------------- monitor state

// c02Suite: per rule family two layouts, each with five of the fixed data sets.
type c02SuiteCfg struct {
	cfg    *c02Config
	worlds []*c02World
}

type c02Suite struct {
	fam map[string][]*c02SuiteCfg
}

var c02SuiteSpecs = map[string][]c02CfgSpec{
	"":           {{Rule: "hash", PerSlice: []int{2, 2}}, {Rule: "mod", PerSlice: []int{3}}},
	"RULE_RANGE": {{Rule: "range", PerSlice: []int{2, 2}}, {Rule: "range", PerSlice: []int{1, 1, 1}}},
	"RULE_DATE":  {{Rule: "date_year", PerSlice: []int{2, 2}}, {Rule: "date_month", PerSlice: []int{2, 1}}},
	"RULE_MYCAT": {{Rule: "mycat_mod", PerSlice: []int{2, 2}}, {Rule: "mycat_long", PerSlice: []int{1, 2}}},
}

// which fixed data sets (by name) are loaded into the first / second layout of a family
var c02SuiteData = [][]string{{"D5", "D1", "D2", "D3", "F1"}, {"D5", "D1", "D2", "D4", "F2"}}

var c02Families = []string{"", "RULE_RANGE", "RULE_DATE", "RULE_MYCAT"}

func c02NewSuite() (*c02Suite, error) {
	su := &c02Suite{fam: map[string][]*c02SuiteCfg{}}
	data := map[string]c02DataSpec{}
	for _, d := range c02FixedData() {
		data[d.Name] = d
	}
	for _, fam := range c02Families {
		for i, spec := range c02SuiteSpecs[fam] {
			cfg, err := c02NewConfig(spec)
			if err != nil {
				return nil, err
			}
			sc := &c02SuiteCfg{cfg: cfg}
			for _, name := range c02SuiteData[i] {
				w, err := c02Load(cfg, data[name])
				if err != nil {
					return nil, err
				}
				sc.worlds = append(sc.worlds, w)
			}
			su.fam[fam] = append(su.fam[fam], sc)
		}
	}
	return su, nil
}

// c02V is the verdict of a shape on the fixed suite, packed: status in the low 3 bits,
// clause rank in the next 3, bit 6 = some world executed >= 2 per-shard statements.
type c02V uint8

const (
	c02StOK = iota
	c02StFail
	c02StRejected
	c02StInvalid
	c02StSkipped
)

var c02StName = []string{"ok", "fail", "rejected", "invalid", "skipped"}
var c02ClauseName = []string{"", "order", "nrows", "rows", "ncols", "panic"}

func (v c02V) status() int    { return int(v & 7) }
func (v c02V) clause() string { return c02ClauseName[(v>>3)&7] }
func (v c02V) merged() bool   { return v&64 != 0 }

const c02MemoShards = 64

type c02Mon struct {
	rec   *kit.Rec
	suite *c02Suite
	mu    [c02MemoShards]sync.Mutex
	memo  [c02MemoShards]map[c02Shape]c02V
}

func c02NewMon(rec *kit.Rec, suite *c02Suite) *c02Mon {
	m := &c02Mon{rec: rec, suite: suite}
	for i := range m.memo {
		m.memo[i] = map[c02Shape]c02V{}
	}
	return m
}

type c02Detail struct {
	sql, world, detail string
	w                  *c02World
}

// evaluate runs the statement of a shape on the worlds of the fixed suite of its rule
// family, in the fixed order, and stops at the first world on which the oracle is refuted:
// the verdict (and its clause) is a function of the shape. det, when not nil, receives
// the witness.
func (m *c02Mon) evaluate(s c02Shape, ps *parser.Parser, det *c02Detail) c02V {
	fam := s.first("RULE_RANGE", "RULE_DATE", "RULE_MYCAT")
	var v c02V
	nOK, nRej, nSkip := 0, 0, 0
	merged := false
scan:
	for _, sc := range m.suite.fam[fam] {
		sql, ok := c02BuildSQL(s, sc.cfg)
		if !ok {
			return c02StInvalid
		}
		pr := c02Prepare(sc.cfg, sql, ps)
		// The proxy builds the merged groups by ranging over a Go map: with GROUP BY and LIMIT
		// the rows that fall into the window differ from run to run. Such statements are
		// executed several times; the oracle must hold for every outcome.
		reps := 1
		if strings.Contains(sql, "GROUP BY") && strings.Contains(sql, "LIMIT") {
			reps = 3
		}
		for _, w := range sc.worlds {
			var o c02Outcome
			for i := 0; i < reps; i++ {
				o = c02RunPrepared(w, pr, ps)
				if o.status == "fail" {
					break
				}
			}
			if o.stmts >= 2 {
				merged = true
			}
			switch o.status {
			case "fail":
				v = c02StFail | c02V(c02ClauseRank[o.clause]<<3)
				if det != nil {
					*det = c02Detail{sql: sql, world: w.cfg.spec.String() + "/" + w.data.Name, detail: o.detail, w: w}
				}
				break scan
			case "rejected":
				nRej++
			case "skipped":
				nSkip++
				if det != nil {
					*det = c02Detail{sql: sql, detail: o.detail}
				}
			default:
				nOK++
			}
		}
	}
	if v.status() != c02StFail {
		switch {
		case nSkip > 0:
			v = c02StSkipped
		case nOK == 0 && nRej > 0:
			v = c02StRejected
		default:
			v = c02StOK
		}
	}
	if merged {
		v |= 64
	}
	return v
}

// verdict of a shape: memoised evaluate. An atom that does not change the statement is a
// no-op: the verdict is that of the smaller set.
func (m *c02Mon) verdict(s c02Shape, ps *parser.Parser) c02V {
	sh := uint64(s) % c02MemoShards
	m.mu[sh].Lock()
	v, ok := m.memo[sh][s]
	m.mu[sh].Unlock()
	if ok {
		return v
	}
	fam := s.first("RULE_RANGE", "RULE_DATE", "RULE_MYCAT")
	scs := m.suite.fam[fam]
	done := false
	mine := make([]string, len(scs))
	for i, sc := range scs {
		q, ok := c02BuildSQL(s, sc.cfg)
		if !ok {
			v, done = c02StInvalid, true
			break
		}
		mine[i] = q
	}
	if !done && s.size() > 1 {
		for _, a := range s.atoms() {
			sub := s.without(a)
			same := true
			for i, sc := range scs {
				q, ok := c02BuildSQL(sub, sc.cfg)
				if !ok || q != mine[i] {
					same = false
					break
				}
			}
			if same {
				v, done = m.verdict(sub, ps), true
				break
			}
		}
	}
	if !done {
		v = m.evaluate(s, ps, nil)
	}
	m.mu[sh].Lock()
	m.memo[sh][s] = v
	m.mu[sh].Unlock()
	return v
}

func (m *c02Mon) fails(s c02Shape, ps *parser.Parser) bool {
	return m.verdict(s, ps).status() == c02StFail
}

// minimal: s fails and every single-atom removal passes.
func (m *c02Mon) minimal(s c02Shape, ps *parser.Parser) bool {
	if !m.fails(s, ps) {
		return false
	}
	for _, a := range s.atoms() {
		if m.fails(s.without(a), ps) {
			return false
		}
	}
	return true
}

// shrink returns the 1-minimal failing subsets of the shape of a failing case, decided on
// the fixed suite: all those of size <= bound (the size up to which the tier enumerates),
// or else the one a greedy removal (fixed atom order) ends in. Empty: neither the shape
// nor any of its sub-shapes fails on the fixed suite.
func (m *c02Mon) shrink(s c02Shape, bound int, ps *parser.Parser) []c02Shape {
	atoms := s.atoms()
	var found []c02Shape
	n := len(atoms)
	var rec func(start int, cur c02Shape, size int)
	rec = func(start int, cur c02Shape, size int) {
		if size > 0 && m.minimal(cur, ps) {
			found = append(found, cur)
		}
		if size == bound {
			return
		}
		for i := start; i < n; i++ {
			rec(i+1, cur.with(atoms[i]), size+1)
		}
	}
	rec(0, 0, 0)
	if len(found) > 0 || !m.fails(s, ps) {
		return found
	}
	cur := s
	for changed := true; changed; {
		changed = false
		for _, a := range cur.atoms() {
			if c := cur.without(a); m.fails(c, ps) {
				cur, changed = c, true
				break
			}
		}
	}
	return []c02Shape{cur}
}

type c02Case struct {
	Cfg   c02CfgSpec  `json:"cfg"`
	Data  c02DataSpec `json:"data"`
	Atoms []string    `json:"atoms"`
	SQL   string      `json:"sql"`
	Sent  []string    `json:"sent,omitempty"`
	Note  string      `json:"note,omitempty"`
}

func c02Sig(clause string, s c02Shape) string {
	return clause + "|" + strings.Join(s.atoms(), "+")
}

func (m *c02Mon) setMemo(s c02Shape, v c02V) {
	sh := uint64(s) % c02MemoShards
	m.mu[sh].Lock()
	m.memo[sh][s] = v
	m.mu[sh].Unlock()
}

// report records a 1-minimal failing shape as a violation with its canonical signature
// (failing oracle clause, atom set); the witness is the statement on a fixed world.
// Before that the minimality is confirmed with fresh executions (a merged result whose
// content depends on map iteration order may have passed by chance): a sub-shape that
// fails after all takes the place of the shape.
func (m *c02Mon) report(min c02Shape, ps *parser.Parser) {
	sig := c02Sig(m.verdict(min, ps).clause(), min)
	if m.rec.IsKnown(sig) {
		m.rec.Violation(sig, "", nil)
		return
	}
	for again := true; again; {
		again = false
		for _, a := range min.atoms() {
			sub := min.without(a)
			if sub == 0 || m.verdict(sub, ps).status() == c02StInvalid {
				continue
			}
			for i := 0; i < 3; i++ {
				if v := m.evaluate(sub, ps, nil); v.status() == c02StFail {
					m.setMemo(sub, v)
					m.rec.Count("confirm.submask_failed_on_recheck", 1)
					min, again = sub, true
					break
				}
			}
			if again {
				break
			}
		}
	}
	var det c02Detail
	var v c02V
	for i := 0; i < 5; i++ {
		if v = m.evaluate(min, ps, &det); v.status() == c02StFail {
			break
		}
	}
	if v.status() != c02StFail {
		m.rec.Count("confirm.failure_not_reproduced", 1)
		m.rec.Set("confirm.last_not_reproduced", min.key())
		return
	}
	m.setMemo(min, v)
	sig = c02Sig(v.clause(), min)
	var witness c02Case
	if det.w != nil {
		o := c02RunCase(det.w, det.sql, ps)
		witness = c02Case{Cfg: det.w.cfg.spec, Data: det.w.data, Atoms: min.atoms(), SQL: det.sql, Sent: o.sent}
	}
	m.rec.Violation(sig, fmt.Sprintf("%s on %s: %s", det.sql, det.world, det.detail), witness)
}

// ---------------------------------------------------------------- enumeration of the feature space

// c02Enumerate visits all atom sets with at most one atom per exclusive slot, by size.
func c02Enumerate(maxSize int, visit func(size int, sets []c02Shape)) {
	n := len(c02Atoms)
	for size := 1; size <= maxSize; size++ {
		var sets []c02Shape
		var rec func(start, have int, cur c02Shape, slots uint32)
		rec = func(start, have int, cur c02Shape, slots uint32) {
			if have == size {
				sets = append(sets, cur)
				return
			}
			for i := start; i < n; i++ {
				sl := c02SlotOf[c02Atoms[i]]
				if sl != 0 && slots&(1<<uint(sl)) != 0 {
					continue
				}
				ns := slots
				if sl != 0 {
					ns |= 1 << uint(sl)
				}
				rec(i+1, have+1, cur|1<<uint(i), ns)
			}
		}
		rec(0, 0, 0, 0)
		visit(size, sets)
	}
}

func c02Parallel(n int, fn func(worker, i int)) {
	workers := runtime.GOMAXPROCS(0)
	if workers > 12 {
		workers = 12
	}
	if workers < 1 {
		workers = 1
	}
	var wg sync.WaitGroup
	var mu sync.Mutex
	next := 0
	for w := 0; w < workers; w++ {
		wg.Add(1)
		go func(w int) {
			defer wg.Done()
			for {
				mu.Lock()
				lo := next
				next += 64
				mu.Unlock()
				if lo >= n {
					return
				}
				hi := lo + 64
				if hi > n {
					hi = n
				}
				for i := lo; i < hi; i++ {
					fn(w, i)
				}
			}
		}(w)
	}
	wg.Wait()
}

// ---------------------------------------------------------------- the test

func TestVerif_C02(t *testing.T) {
	rec := kit.Start("C02", "exploration",
		"cases are (layout, data, statement) triples: the statement is the image of a set of query-feature atoms (c02Atoms), "+
			"the data is placed by the rule's own FindTableIndex; the fixed adversarial data sets decide the verdict of a shape, "+
			"random layouts/data/shapes are drawn from VERIF_SEED. Non-trivial = the statement was executed on >= 2 physical tables "+
			"and merged by the real plan code; distinct = distinct atom sets (incl. rule family)")
	defer rec.Finish(t)
	rec.Assume("binary collation; generated comparisons are type-consistent (int with int, string with string)")
	rec.Assume("a backend returns rows without ORDER BY in storage order and ties of an ORDER BY in storage order; any other choice of MySQL is covered by the oracle's window rule, not by the workload")
	rec.Assume("statements the proxy rejects with an error (at plan time or because a rewritten statement is refused by the backend) are counted, not violations")
	rec.Assume("conditions on the sharding key are one comparison / IN / BETWEEN of the key with literals, alone or under one NOT / OR / AND (c02_keys grid); deeper nesting is not generated")

	suite, err := c02NewSuite()
	if err != nil {
		rec.Inconclusive("fixed suite cannot be built: " + err.Error())
		return
	}
	m := c02NewMon(rec, suite)

	if p := kit.ReplayPath(); p != "" {
		var kc c02KeyCase
		if err := kit.LoadReplay(p, &kc); err == nil && kc.Pred.Op != "" {
			c02ReplayKey(rec, kc)
			return
		}
		var c c02Case
		if err := kit.LoadReplay(p, &c); err != nil {
			rec.Inconclusive("replay file unreadable: " + err.Error())
			return
		}
		c02Replay(m, c)
		return
	}

	parsers := make([]*parser.Parser, 16)
	for i := range parsers {
		parsers[i] = parser.New()
	}

	// Part 0: the grid of key predicates (all pruning forms x bound positions x combinators)
	// on data with rows on and around every table boundary, for every rule family.
	grid, err := c02RunKeyGrid(rec, suite, parsers)
	if err != nil {
		rec.Inconclusive("key-predicate grid cannot be built: " + err.Error())
		return
	}
	grid.reportAll(rec)

	// Part 1: enumeration of the feature space on the fixed suite; every 1-minimal failing
	// atom set is a finding (listed or not).
	maxSize := kit.N(3, 5)
	rec.Set("enumerated_max_set_size", maxSize)
	rec.Set("atoms", c02Atoms)
	enumStats := map[string]int64{}
	c02Enumerate(maxSize, func(size int, sets []c02Shape) {
		verdicts := make([]c02V, len(sets))
		c02Parallel(len(sets), func(w, i int) {
			verdicts[i] = m.verdict(sets[i], parsers[w])
		})
		var failing []int
		for i, v := range verdicts {
			enumStats["shapes."+c02StName[v.status()]]++
			if v.status() != c02StInvalid {
				rec.Eval(1)
				if v.merged() {
					rec.Nontrivial(strconv.FormatUint(uint64(sets[i]), 36))
				}
			}
			if v.status() == c02StFail {
				failing = append(failing, i)
				enumStats["failing."+v.clause()]++
			}
		}
		isMin := make([]bool, len(failing))
		c02Parallel(len(failing), func(w, j int) {
			isMin[j] = m.minimal(sets[failing[j]], parsers[w])
		})
		for j, i := range failing {
			if isMin[j] {
				enumStats["minimal_failing_sets.size"+strconv.Itoa(size)]++
				m.report(sets[i], parsers[0])
			}
		}
		enumStats["sets.size"+strconv.Itoa(size)] += int64(len(sets))
	})
	for k, v := range enumStats {
		rec.Count("enum."+k, v)
	}
	if enumStats["shapes.skipped"] > 0 {
		rec.Inconclusive(fmt.Sprintf("the rig could not evaluate %d enumerated shapes", enumStats["shapes.skipped"]))
	}

	// Part 2: random layouts x random data x random shapes; a failure is shrunk on the fixed suite.
	nWorlds := kit.N(80, 2500)
	perWorld := kit.N(50, 100)
	type job struct {
		w     *c02World
		shape c02Shape
		sql   string
	}
	cfgCache := map[string]*c02Config{}
	r := kit.SubRand(kit.Seed(), "C02/random")
	var jobs []job
	for i := 0; i < nWorlds; i++ {
		spec := c02CfgSpec{Rule: r.Pick(c02RuleTypes)}
		for s := r.Range(1, 4); s > 0; s-- {
			spec.PerSlice = append(spec.PerSlice, r.Range(1, 4))
		}
		cfg, ok := cfgCache[spec.String()]
		if !ok {
			var err error
			cfg, err = c02NewConfig(spec)
			if err != nil {
				rec.Inconclusive("layout cannot be built: " + err.Error())
				return
			}
			cfgCache[spec.String()] = cfg
		}
		w, err := c02Load(cfg, c02RandomData(r, "R"+strconv.Itoa(i)))
		if err != nil {
			rec.Inconclusive("data cannot be loaded: " + err.Error())
			return
		}
		rec.Count("random.layouts."+spec.Rule, 1)
		rec.Count("random.shards_total", int64(len(cfg.shards)))
		for j := 0; j < perWorld; j++ {
			sh := c02RandomShape(r)
			sql, ok := c02BuildSQL(sh, cfg)
			if !ok {
				rec.Count("random.invalid_shape", 1)
				continue
			}
			if cfg.family != "" {
				sh = sh.with(cfg.family)
			}
			jobs = append(jobs, job{w: w, shape: sh, sql: sql})
		}
	}
	// random key predicates on the same random worlds
	type keyJob struct {
		w    *c02World
		pred c02KeyPred
		sql  string
	}
	var keyJobs []keyJob
	rk := kit.SubRand(kit.Seed(), "C02/random-keys")
	perWorldKeys := kit.N(25, 20)
	seenWorld := map[*c02World]bool{}
	for _, j := range jobs {
		if seenWorld[j.w] {
			continue
		}
		seenWorld[j.w] = true
		for k := 0; k < perWorldKeys; k++ {
			p := c02RandomKeyPred(rk)
			sql, ok := p.sqlAnyOrder(j.w.cfg, rk)
			if !ok {
				continue
			}
			keyJobs = append(keyJobs, keyJob{w: j.w, pred: p, sql: sql})
		}
	}
	keyOuts := make([]c02Outcome, len(keyJobs))
	c02Parallel(len(keyJobs), func(w, i int) {
		keyOuts[i] = c02RunCase(keyJobs[i].w, keyJobs[i].sql, parsers[w])
	})
	for i, o := range keyOuts {
		j := keyJobs[i]
		cl := j.pred.class(j.w.cfg.family)
		rec.Eval(1)
		rec.Count("randomkeys."+o.status, 1)
		if o.stmts >= 1 && o.stmts < len(j.w.cfg.shards) {
			rec.Count("randomkeys.pruned_cases", 1)
		}
		if o.stmts >= 2 && o.status != "skipped" {
			rec.Nontrivial("key:" + cl.sig(""))
		}
		if o.status == "skipped" {
			rec.Set("randomkeys.last_skip", o.detail+" :: "+j.sql)
		}
		if o.status != "fail" {
			continue
		}
		rec.Count("randomkeys.fail."+o.clause, 1)
		var mins []c02KeyClass
		for _, mc := range grid.minimalFrom(cl) {
			if _, ok := grid.fails[mc][o.clause]; ok { // another clause is another defect
				mins = append(mins, mc)
			}
		}
		if len(mins) == 0 {
			sig := "unreproduced|" + cl.sig(o.clause) + "|" + j.w.cfg.spec.String() + "|" + kit.Hash64(j.sql, fmt.Sprintf("%v", j.w.data))
			rec.Violation(sig, fmt.Sprintf("%s on %s with random data: %s (the class does not fail on the fixed key grid)", j.sql, j.w.cfg.spec, o.detail),
				c02KeyCase{Cfg: j.w.cfg.spec, Data: j.w.data, Pred: j.pred, SQL: j.sql, Sent: o.sent, Note: "fixed-grid miss"})
			continue
		}
		for _, mc := range mins {
			grid.report(rec, mc, o.clause)
		}
	}
	if rec.CounterValue("randomkeys.skipped")*10 > int64(len(keyJobs)) {
		rec.Inconclusive(fmt.Sprintf("rig skipped %d of %d random key-predicate cases", rec.CounterValue("randomkeys.skipped"), len(keyJobs)))
	}

	outs := make([]c02Outcome, len(jobs))
	c02Parallel(len(jobs), func(w, i int) {
		outs[i] = c02RunCase(jobs[i].w, jobs[i].sql, parsers[w])
	})
	sampled := 0
	for i, o := range outs {
		j := jobs[i]
		rec.Eval(1)
		rec.Count("random."+o.status, 1)
		rec.Count("random.shard_statements", int64(o.stmts))
		if o.stmts >= 2 && o.status != "skipped" {
			rec.Nontrivial(strconv.FormatUint(uint64(j.shape), 36))
			rec.Count("random.merged", 1)
		} else if o.stmts == 1 {
			rec.Count("random.single_node", 1)
		}
		if o.status == "skipped" {
			rec.Set("random.last_skip", o.detail+" :: "+j.sql)
		}
		if o.status == "ok" && o.stmts >= 2 && sampled < 200 {
			sampled++
			rec.Sample(map[string]interface{}{"layout": j.w.cfg.spec.String(), "rows_t": j.w.rowsT, "atoms": j.shape.atoms(),
				"sql": j.sql, "sent_first": c02First(o.sent, 2), "reference_rows": o.nref, "answer_rows": o.nres, "verdict": o.status})
		}
		if o.status != "fail" {
			continue
		}
		rec.Count("random.fail."+o.clause, 1)
		mins := m.shrink(j.shape, maxSize, parsers[0])
		if len(mins) == 0 {
			// not reproduced on the fixed suite: the concrete case stays in the signature (unlisted)
			sig := "unreproduced|" + o.clause + "|" + j.shape.key() + "|" + j.w.cfg.spec.String() + "|" + kit.Hash64(fmt.Sprintf("%v", j.w.data))
			rec.Violation(sig, fmt.Sprintf("%s on %s with random data: %s (neither the shape nor a sub-shape fails on the fixed data sets)", j.sql, j.w.cfg.spec, o.detail),
				c02Case{Cfg: j.w.cfg.spec, Data: j.w.data, Atoms: j.shape.atoms(), SQL: j.sql, Sent: o.sent, Note: "fixed-suite miss"})
			continue
		}
		for _, min := range mins {
			m.report(min, parsers[0])
		}
	}
	if rec.CounterValue("random.skipped")*10 > int64(len(jobs)) {
		rec.Inconclusive(fmt.Sprintf("rig skipped %d of %d random cases", rec.CounterValue("random.skipped"), len(jobs)))
	}
	if rec.CounterValue("random.merged") == 0 {
		rec.Inconclusive("no random case reached the merge path")
	}
}

func c02First(s []string, n int) []string {
	if len(s) > n {
		return s[:n]
	}
	return s
}

func c02Replay(m *c02Mon, c c02Case) {
	ps := parser.New()
	cfg, err := c02NewConfig(c.Cfg)
	if err != nil {
		m.rec.Inconclusive("replay: " + err.Error())
		return
	}
	w, err := c02Load(cfg, c.Data)
	if err != nil {
		m.rec.Inconclusive("replay: " + err.Error())
		return
	}
	o := c02RunCase(w, c.SQL, ps)
	m.rec.Eval(1)
	m.rec.Nontrivial("replay")
	m.rec.Nontrivial(c.SQL)
	m.rec.Sample(map[string]interface{}{"sql": c.SQL, "status": o.status, "clause": o.clause, "detail": o.detail, "sent": o.sent})
	fmt.Printf("replay: %s\n  status=%s clause=%s\n  %s\n", c.SQL, o.status, o.clause, o.detail)
	for _, s := range o.sent {
		fmt.Println("  sent:", s)
	}
	if o.status == "fail" {
		sh := c02ShapeOf(c.Atoms)
		sig := "unreproduced|" + o.clause + "|" + sh.key()
		if mins := m.shrink(sh, 3, ps); len(mins) > 0 {
			sort.Slice(mins, func(i, j int) bool { return mins[i] < mins[j] })
			sig = c02Sig(m.verdict(mins[0], ps).clause(), mins[0])
		}
		m.rec.Violation(sig, c.SQL+": "+o.detail, c)
	}
}
