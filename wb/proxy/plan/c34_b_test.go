package plan

// C34, part b — the consumer side of the global sequence: INSERT plans.
//
// Real BuildPlan/InsertPlan for a sharded table with a configured global sequence, whose
// sequence is a REAL sequence.MySQLSequence on a real backend.Slice pool towards the fake
// MySQL server (rig R3) simulating the sequence table. 1-3 "proxies" (each its own
// SequenceManager/MySQLSequence on the shared table) plan inserts in every form that draws a
// value (column omitted, nextval(), NULL, multi-row VALUES, SET id = nextval()), one at a
// time; the outcome of the k-th block fetch is scripted. The oracle reads the ids out of the
// SQL the plan would send to the backends.

import (
	"fmt"
	"sort"
	"strconv"
	"strings"
	"sync"
	"testing"
	"time"

	"github.com/XiaoMi/Gaea/backend"
	"github.com/XiaoMi/Gaea/log"
	"github.com/XiaoMi/Gaea/log/xlog"
	"github.com/XiaoMi/Gaea/models"
	"github.com/XiaoMi/Gaea/parser"
	"github.com/XiaoMi/Gaea/parser/ast"
	"github.com/XiaoMi/Gaea/parser/format"
	"github.com/XiaoMi/Gaea/proxy/router"
	"github.com/XiaoMi/Gaea/proxy/sequence"
	kit "github.com/XiaoMi/Gaea/verifkit"
	"github.com/XiaoMi/Gaea/verifkit/fakemysql"
)

type c34bCase struct {
	Proxies int    `json:"proxies"`
	Block   int    `json:"block_size"`
	Inserts int    `json:"inserts"`
	Offset  int    `json:"form_offset"` // rotation of the statement forms
	Fault   string `json:"fault"`
	FaultAt int    `json:"fault_at_fetch"`
}

var c34bFaults = []string{"err", "drop", "norows", "one_field", "missing", "nonnum_curr", "nonnum_incr", "zero_incr", "neg_incr"}

// statement forms; %d = a sharding key value
var c34bForms = []struct {
	Name string
	SQL  string
	Rows int
}{
	{"omitted", "insert into c34t (uid, name) values (%d, 'x')", 1},
	{"nextval", "insert into c34t (id, uid, name) values (nextval(), %d, 'x')", 1},
	{"null", "insert into c34t (id, uid, name) values (null, %d, 'x')", 1},
	{"multirow", "insert into c34t (uid, name) values (%d, 'a'), (2, 'b'), (3, 'c')", 3},
	{"set", "insert into c34t set id = nextval(), uid = %d, name = 'x'", 1},
}

type c34bFetch struct {
	K     int    `json:"k"`
	Proxy string `json:"proxy"`
	Kind  string `json:"kind"`
	Reply string `json:"reply"`
	Lo    int64  `json:"block_lo,omitempty"` // values (Lo, Hi] belong to the fetching proxy
	Hi    int64  `json:"block_hi,omitempty"`
}

type c34bTable struct {
	mu      sync.Mutex
	current int64
	incr    int64
	fault   string
	faultAt int
	fetches []c34bFetch
}

type c34bRig struct {
	srv    *fakemysql.Server
	slices []*backend.Slice
	rt     *router.Router
	mu     sync.Mutex
	tables map[string]*c34bTable
}

func (rg *c34bRig) handler(conn *fakemysql.ConnState, sql string) fakemysql.Response {
	const pre = "SELECT mycat_seq_nextval('"
	if !strings.HasPrefix(sql, pre) {
		return fakemysql.Default()
	}
	rest := sql[len(pre):]
	i := strings.IndexByte(rest, '\'')
	if i < 0 {
		return fakemysql.Err(1064, "42000", "bad sequence statement")
	}
	rg.mu.Lock()
	tb := rg.tables[rest[:i]]
	rg.mu.Unlock()
	if tb == nil {
		return fakemysql.TextResult([]string{"seq_val"}, []string{"-999999999,null"})
	}
	tb.mu.Lock()
	defer tb.mu.Unlock()
	k := len(tb.fetches) + 1
	kind := "ok"
	if k == tb.faultAt && tb.fault != "none" {
		kind = tb.fault
	}
	f := c34bFetch{K: k, Proxy: conn.User, Kind: kind}
	var resp fakemysql.Response
	reply := func(s string) {
		f.Reply = s
		resp = fakemysql.TextResult([]string{"seq_val"}, []string{s})
	}
	switch kind {
	case "ok":
		tb.current += tb.incr
		f.Lo, f.Hi = tb.current, tb.current+tb.incr
		reply(fmt.Sprintf("%d,%d", tb.current, tb.incr))
	case "err":
		f.Reply = "ERR 1213"
		resp = fakemysql.Err(1213, "40001", "Deadlock found when trying to get lock; try restarting transaction")
	case "drop":
		f.Reply = "connection dropped"
		resp = fakemysql.Close()
	case "norows":
		f.Reply = "empty result"
		resp = fakemysql.TextResult([]string{"seq_val"})
	case "one_field":
		reply(fmt.Sprintf("%d", tb.current+tb.incr))
	case "missing":
		reply("-999999999,null")
	case "nonnum_curr":
		reply(fmt.Sprintf("x%d,%d", tb.current+tb.incr, tb.incr))
	case "nonnum_incr":
		reply(fmt.Sprintf("%d,%dx", tb.current, tb.incr))
	case "zero_incr":
		reply(fmt.Sprintf("%d,0", tb.current))
	case "neg_incr":
		reply(fmt.Sprintf("%d,-%d", tb.current, tb.incr))
	}
	tb.fetches = append(tb.fetches, f)
	return resp
}

func c34bNamespace() *models.Namespace {
	sl := func(name string) *models.Slice {
		return &models.Slice{Name: name, UserName: "root", Password: "root", Master: "127.0.0.1:1", Capacity: 2, MaxCapacity: 2, IdleTimeout: 3600}
	}
	return &models.Namespace{
		Name: "c34b", Online: true,
		AllowedDBS:    map[string]bool{"db": true},
		DefaultPhyDBS: map[string]string{"db": "db"},
		Slices:        []*models.Slice{sl("slice-0"), sl("slice-1")},
		ShardRules: []*models.Shard{
			{DB: "db", Table: "c34t", Type: "mod", Key: "uid", Locations: []int{2, 2}, Slices: []string{"slice-0", "slice-1"}},
		},
		GlobalSequences: []*models.GlobalSequence{{DB: "db", Table: "c34t", Type: "mycat", SliceName: "slice-0", PKName: "id"}},
		Users:           []*models.User{{UserName: "u", Password: "p", Namespace: "c34b", RWFlag: 2, RWSplit: 0}},
		DefaultSlice:    "slice-0",
	}
}

func c34bNewRig() (*c34bRig, error) {
	srv, err := fakemysql.Start()
	if err != nil {
		return nil, err
	}
	srv.SetLogging(false, false)
	rg := &c34bRig{srv: srv, tables: map[string]*c34bTable{}}
	srv.SetHandler(rg.handler)
	for i := 0; i < 3; i++ {
		s := &backend.Slice{
			Cfg:              models.Slice{Name: "slice-0", UserName: fmt.Sprintf("p%d", i), Password: "pw", Capacity: 2, MaxCapacity: 2, IdleTimeout: 3600},
			Namespace:        "c34b",
			ProxyDatacenter:  "dc1",
			HandshakeTimeout: 20 * time.Second,
		}
		s.SetCharsetInfo("utf8mb4", 45)
		if err := s.ParseMaster(srv.Addr() + "#dc1"); err != nil {
			return nil, err
		}
		s.ParseSlave(nil)
		s.ParseStatisticSlave(nil)
		s.ParseMonitorMaster("")
		s.ParseMonitorSlave(nil)
		rg.slices = append(rg.slices, s)
	}
	rg.rt, err = router.NewRouter(c34bNamespace())
	if err != nil {
		return nil, fmt.Errorf("router: %v", err)
	}
	return rg, nil
}

func (rg *c34bRig) close() {
	for _, s := range rg.slices {
		s.Close()
	}
	rg.srv.Close()
}

type c34bReq struct {
	Proxy    int      `json:"proxy"`
	Form     string   `json:"form"`
	SQL      string   `json:"sql"`
	Err      string   `json:"err,omitempty"`
	IDs      []string `json:"ids,omitempty"` // id values found in the SQL the plan sends to the backends
	Planned  []string `json:"planned_sql,omitempty"`
	Fetches  []int    `json:"fetches,omitempty"` // indexes (k) of the block fetches made while planning
	Faulted  bool     `json:"faulted_fetch"`
	PoolIssu bool     `json:"-"`
}

// c34bIDs extracts the values of column id from the rewritten statements of an insert plan.
func c34bIDs(p *InsertPlan) (ids []string, sqls []string, err error) {
	for _, dbs := range p.sqls {
		for _, list := range dbs {
			for _, q := range list {
				sqls = append(sqls, q)
				n, perr := parser.ParseSQL(q)
				if perr != nil {
					return nil, sqls, fmt.Errorf("planned statement does not parse: %v", perr)
				}
				ins, ok := n.(*ast.InsertStmt)
				if !ok {
					return nil, sqls, fmt.Errorf("planned statement is not an insert: %s", q)
				}
				restore := func(e ast.ExprNode) string {
					var sb strings.Builder
					e.Restore(format.NewRestoreCtx(format.DefaultRestoreFlags, &sb))
					return sb.String()
				}
				if len(ins.Setlist) > 0 {
					found := false
					for _, a := range ins.Setlist {
						if a.Column.Name.L == "id" {
							ids = append(ids, restore(a.Expr))
							found = true
						}
					}
					if !found {
						ids = append(ids, "(absent)")
					}
					continue
				}
				idx := -1
				for i, c := range ins.Columns {
					if c.Name.L == "id" {
						idx = i
					}
				}
				for _, row := range ins.Lists {
					if idx < 0 || idx >= len(row) {
						ids = append(ids, "(absent)")
					} else {
						ids = append(ids, restore(row[idx]))
					}
				}
			}
		}
	}
	return ids, sqls, nil
}

var c34bRunID int

// c34bRun plans the inserts of one case and applies the oracle; clause "" = held.
func c34bRun(rg *c34bRig, c c34bCase) (clause, form, detail string, reqs []c34bReq, fetches []c34bFetch, infra bool) {
	c34bRunID++
	name := fmt.Sprintf("seqb%d", c34bRunID)
	tb := &c34bTable{current: 1000, incr: int64(c.Block), fault: c.Fault, faultAt: c.FaultAt}
	rg.mu.Lock()
	rg.tables[name] = tb
	rg.mu.Unlock()
	defer func() {
		rg.mu.Lock()
		delete(rg.tables, name)
		rg.mu.Unlock()
	}()
	mgrs := make([]*sequence.SequenceManager, c.Proxies)
	for i := range mgrs {
		mgrs[i] = sequence.NewSequenceManager()
		mgrs[i].SetSequence("db", "c34t", sequence.NewMySQLSequence(rg.slices[i], name, "id", 0))
	}
	phy := map[string]string{"db": "db"}
	for i := 0; i < c.Inserts; i++ {
		px := i % c.Proxies
		f := c34bForms[(i/c.Proxies+c.Offset)%len(c34bForms)]
		r := c34bReq{Proxy: px, Form: f.Name, SQL: fmt.Sprintf(f.SQL, 10+i)}
		tb.mu.Lock()
		before := len(tb.fetches)
		tb.mu.Unlock()
		stmt, err := parser.ParseSQL(r.SQL)
		if err != nil {
			return "harness", f.Name, "statement does not parse: " + err.Error(), reqs, nil, false
		}
		p, err := BuildPlan(stmt, phy, "db", r.SQL, rg.rt, mgrs[px], nil)
		tb.mu.Lock()
		for _, ft := range tb.fetches[before:] {
			r.Fetches = append(r.Fetches, ft.K)
			if ft.Kind != "ok" {
				r.Faulted = true
			}
		}
		tb.mu.Unlock()
		if err != nil {
			r.Err = err.Error()
			if strings.Contains(r.Err, "create resource failed") || strings.Contains(r.Err, "context deadline exceeded") || strings.Contains(r.Err, "resource pool timed out") {
				infra = true
			}
		} else if ip, ok := p.(*InsertPlan); ok {
			ids, sqls, ierr := c34bIDs(ip)
			r.IDs, r.Planned = ids, sqls
			if ierr != nil {
				r.Err = "oracle: " + ierr.Error()
			}
		} else {
			r.Err = fmt.Sprintf("oracle: plan is a %T", p)
		}
		reqs = append(reqs, r)
	}
	tb.mu.Lock()
	fetches = append(fetches, tb.fetches...)
	tb.mu.Unlock()
	if infra {
		return "", "", "", reqs, fetches, true
	}
	// oracle
	owned := func(px int, v int64) bool {
		for _, ft := range fetches {
			if ft.Kind == "ok" && ft.Proxy == fmt.Sprintf("p%d", px) && v > ft.Lo && v <= ft.Hi {
				return true
			}
		}
		return false
	}
	seen := map[int64]int{}
	last := map[int]int64{}
	for ri, r := range reqs {
		if r.Faulted {
			if r.Err == "" {
				return "planned-after-failed-fetch", r.Form, fmt.Sprintf("request %d (proxy %d, %q): a block fetch made for it was answered with a fault, yet the insert was planned with id(s) %v: %v", ri, r.Proxy, r.SQL, r.IDs, r.Planned), reqs, fetches, false
			}
			continue
		}
		if r.Err != "" {
			return "fault-free-insert-failed", r.Form, fmt.Sprintf("request %d (proxy %d, %q) failed although no fetch failed: %s", ri, r.Proxy, r.SQL, r.Err), reqs, fetches, false
		}
		want := 1
		for _, f := range c34bForms {
			if f.Name == r.Form {
				want = f.Rows
			}
		}
		if len(r.IDs) != want {
			return "id-count", r.Form, fmt.Sprintf("request %d (%q): %d rows planned with %d id values %v", ri, r.SQL, want, len(r.IDs), r.IDs), reqs, fetches, false
		}
		// the rows of one statement are spread over the shards' statements in no particular
		// order: within a request only the set of ids matters
		vals := make([]int64, 0, len(r.IDs))
		for _, s := range r.IDs {
			v, err := strconv.ParseInt(s, 10, 64)
			if err != nil {
				return "id-not-a-value", r.Form, fmt.Sprintf("request %d (%q): planned id %q is not a sequence value: %v", ri, r.SQL, s, r.Planned), reqs, fetches, false
			}
			vals = append(vals, v)
		}
		sort.Slice(vals, func(i, j int) bool { return vals[i] < vals[j] })
		for _, v := range vals {
			if !owned(r.Proxy, v) {
				return "id-outside-fetched-block", r.Form, fmt.Sprintf("request %d (proxy %d, %q): planned id %d is in no block this proxy fetched", ri, r.Proxy, r.SQL, v), reqs, fetches, false
			}
			if prev, dup := seen[v]; dup {
				return "duplicate-id", r.Form, fmt.Sprintf("id %d planned twice: requests %d and %d", v, prev, ri), reqs, fetches, false
			}
			seen[v] = ri
			if l, ok := last[r.Proxy]; ok && v <= l {
				return "id-not-increasing", r.Form, fmt.Sprintf("proxy %d planned id %d after %d", r.Proxy, v, l), reqs, fetches, false
			}
			last[r.Proxy] = v
		}
	}
	return "", "", "", reqs, fetches, false
}

func TestVerif_C34b(t *testing.T) {
	rec := kit.Start("C34", "fault_enumeration", "part b (proxy/plan): one run = (proxies 1-3, block size, rotation of the insert forms {id column omitted, nextval(), NULL, 3-row VALUES, SET id = nextval()}, scripted outcome of block fetch k) planned one insert at a time through the real BuildPlan with real MySQLSequence allocators on one simulated sequence table; every fault kind x every fetch index; non-trivial when the fault hit a fetch made for an insert; distinct key = (proxies, block, offset, fault, k)")
	defer rec.Finish(t)
	rec.Assume("part b: inserts are planned sequentially, so a block fetch belongs to the insert being planned when it arrives; ids are read from the SQL text the plan would send to the backends, re-parsed with Gaea's parser")
	if lg, err := xlog.CreateLogManager("console", map[string]string{"level": "fatal"}); err == nil {
		log.SetGlobalLogger(lg)
	}
	rg, err := c34bNewRig()
	if err != nil {
		rec.Inconclusive("cannot build rig: " + err.Error())
		return
	}
	defer rg.close()

	runOne := func(c c34bCase) bool {
		var clause, form, detail string
		var reqs []c34bReq
		var fetches []c34bFetch
		for attempt := 0; ; attempt++ {
			var infra bool
			clause, form, detail, reqs, fetches, infra = c34bRun(rg, c)
			if !infra {
				break
			}
			rec.Count("b.runs.retried_after_pool_timeout", 1)
			if attempt == 2 {
				rec.Inconclusive(fmt.Sprintf("run %+v: connection pool timed out three times in a row", c))
				return false
			}
		}
		rec.Eval(1)
		fired := false
		for _, r := range reqs {
			if r.Faulted {
				fired = true
				rec.Count("b.fault_hit_form."+r.Form, 1)
			}
			if r.Err == "" {
				rec.Count("b.inserts.planned", 1)
				rec.Count("b.ids.planned", int64(len(r.IDs)))
			} else {
				rec.Count("b.inserts.failed", 1)
			}
		}
		rec.Count("b.fetch.total", int64(len(fetches)))
		if fired || c.Fault == "none" {
			rec.Nontrivial(fmt.Sprintf("b/%d/%d/%d/%d/%s/%d", c.Proxies, c.Block, c.Inserts, c.Offset, c.Fault, c.FaultAt))
		}
		if clause != "" {
			rec.Count("b.clause."+clause, 1)
			sig := "C34:" + clause + ":" + form
			rec.Violation(sig, detail, map[string]interface{}{"part": "b", "case": c, "requests": reqs, "fetches": fetches})
		}
		if c.FaultAt <= 1 && c.Offset == 0 || clause != "" {
			rec.Sample(map[string]interface{}{"part": "b", "case": c, "requests": len(reqs), "fetches": len(fetches), "fault_hit_an_insert": fired, "clause": clause})
		}
		return true
	}

	if p := kit.ReplayPath(); p != "" {
		var w struct {
			Part string   `json:"part"`
			Case c34bCase `json:"case"`
		}
		if err := kit.LoadReplay(p, &w); err != nil || w.Part != "b" {
			// a witness of part a: nothing to replay here
			rec.Eval(1)
			rec.Nontrivial("replay-not-for-part-b")
			rec.Nontrivial("replay-not-for-part-b-2")
			rec.Sample("replay file belongs to part a")
			return
		}
		runOne(w.Case)
		rec.Nontrivial("replay")
		rec.Nontrivial("replay2")
		return
	}

	inserts := kit.N(10, 20)
	blocks := []int{1, 2, 3, 5}
	maxProxies := kit.N(2, 3)
	for proxies := 1; proxies <= maxProxies; proxies++ {
		for _, block := range blocks {
			for offset := 0; offset < len(c34bForms); offset++ {
				base := c34bCase{Proxies: proxies, Block: block, Inserts: inserts, Offset: offset, Fault: "none"}
				if !runOne(base) {
					return
				}
				values := inserts + 2*(inserts/len(c34bForms)+1)
				maxK := (values+block-1)/block + proxies
				for _, kind := range c34bFaults {
					for k := 1; k <= maxK; k++ {
						c := base
						c.Fault, c.FaultAt = kind, k
						if !runOne(c) {
							return
						}
					}
				}
			}
		}
	}
	rec.Set("b.backend_connections_accepted", rg.srv.Accepted())
}
