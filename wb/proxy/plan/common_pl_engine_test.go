package plan

// Shared by C01, C03, C04, C05 (tag pl): a small in-memory shard store and an evaluator over
// Gaea's own AST (parser/ast). It evaluates WHERE conditions with MySQL's 3-valued logic over
// int / string / datetime columns, decodes rewritten statements to the physical table they
// address, and executes UPDATE / DELETE on rows. The same evaluator computes the reference
// answer (original statement on one logical table) and the per-shard answers (rewritten
// statements on physical tables), so common-mode evaluator errors cancel.

import (
	"fmt"
	"sort"
	"strconv"
	"strings"

	"github.com/XiaoMi/Gaea/mysql"
	"github.com/XiaoMi/Gaea/parser"
	"github.com/XiaoMi/Gaea/parser/ast"
	"github.com/XiaoMi/Gaea/parser/opcode"
	driver "github.com/XiaoMi/Gaea/parser/tidb-types/parser_driver"
	"github.com/XiaoMi/Gaea/util"
)

// ---------------------------------------------------------------- values

type plVal struct {
	Null  bool
	IsStr bool
	I     int64
	S     string
	Big   bool // unsigned integer above MaxInt64, kept in U
	U     uint64
}

func plBigV(u uint64) plVal {
	if u <= 1<<63-1 {
		return plIntV(int64(u))
	}
	return plVal{Big: true, U: u}
}

// plIntCmp orders two integer values (int64, or unsigned above MaxInt64).
func plIntCmp(a, b plVal) int {
	switch {
	case a.Big && b.Big:
		if a.U < b.U {
			return -1
		} else if a.U > b.U {
			return 1
		}
		return 0
	case a.Big:
		return 1
	case b.Big:
		return -1
	case a.I < b.I:
		return -1
	case a.I > b.I:
		return 1
	}
	return 0
}

// plParseInt converts a numeric string the way an integer column would store it.
func plParseInt(s string) (plVal, error) {
	if n, err := strconv.ParseInt(s, 10, 64); err == nil {
		return plIntV(n), nil
	}
	u, err := strconv.ParseUint(s, 10, 64)
	if err != nil {
		return plVal{}, err
	}
	return plBigV(u), nil
}

func plIntV(i int64) plVal  { return plVal{I: i} }
func plStrV(s string) plVal { return plVal{IsStr: true, S: s} }
func plNullV() plVal        { return plVal{Null: true} }

func (v plVal) String() string {
	switch {
	case v.Null:
		return "NULL"
	case v.IsStr:
		return "'" + v.S + "'"
	case v.Big:
		return strconv.FormatUint(v.U, 10)
	}
	return strconv.FormatInt(v.I, 10)
}

// SQL renders the value as a literal.
func (v plVal) SQL() string { return v.String() }

const (
	plTInt  = "int"
	plTStr  = "str"
	plTDate = "date" // DATETIME column; values kept as canonical 'YYYY-MM-DD HH:MM:SS' strings
)

// three-valued logic
const (
	plFalse = 0
	plTrue  = 1
	plUnk   = 2
)

func plNot3(a int) int {
	switch a {
	case plTrue:
		return plFalse
	case plFalse:
		return plTrue
	}
	return plUnk
}

func plAnd3(a, b int) int {
	if a == plFalse || b == plFalse {
		return plFalse
	}
	if a == plTrue && b == plTrue {
		return plTrue
	}
	return plUnk
}

func plOr3(a, b int) int {
	if a == plTrue || b == plTrue {
		return plTrue
	}
	if a == plFalse && b == plFalse {
		return plFalse
	}
	return plUnk
}

// plErrUnsupported marks a construct outside the evaluator's subset (a generator bug, never
// a verdict about Gaea).
type plErrUnsupported string

func (e plErrUnsupported) Error() string { return "evaluator: unsupported " + string(e) }

// plErrInvalid marks a statement MySQL itself would refuse (unknown column / table qualifier).
type plErrInvalid string

func (e plErrInvalid) Error() string { return "invalid statement: " + string(e) }

// ---------------------------------------------------------------- environment

type plEnvTable struct {
	Names  []string // lower-case qualifiers that resolve to this table (alias, or the table name)
	Schema string   // database the table lives in ("" = unknown/any)
	Row    map[string]plVal
	Types  map[string]string
}

type plEnv struct {
	Tabs []*plEnvTable
}

func (e *plEnv) lookup(cn *ast.ColumnName) (plVal, string, error) {
	col := cn.Name.L
	if cn.Table.L != "" {
		for _, t := range e.Tabs {
			for _, n := range t.Names {
				if n == cn.Table.L {
					if cn.Schema.O != "" && t.Schema != "" && cn.Schema.O != t.Schema {
						return plVal{}, "", plErrInvalid(fmt.Sprintf("column %s.%s.%s: table lives in database %s", cn.Schema.O, cn.Table.O, cn.Name.O, t.Schema))
					}
					v, ok := t.Row[col]
					if !ok {
						return plVal{}, "", plErrInvalid("unknown column " + cn.Table.O + "." + cn.Name.O)
					}
					return v, t.Types[col], nil
				}
			}
		}
		return plVal{}, "", plErrInvalid("unknown table qualifier " + cn.Table.O)
	}
	for _, t := range e.Tabs {
		if v, ok := t.Row[col]; ok {
			return v, t.Types[col], nil
		}
	}
	return plVal{}, "", plErrInvalid("unknown column " + cn.Name.O)
}

// ---------------------------------------------------------------- scalar evaluation

func plValueOf(v *driver.ValueExpr) (plVal, error) {
	r, err := util.GetValueExprResult(v)
	if err != nil {
		return plVal{}, err
	}
	switch x := r.(type) {
	case nil:
		return plNullV(), nil
	case int64:
		return plIntV(x), nil
	case uint64:
		return plBigV(x), nil
	case string:
		return plStrV(x), nil
	}
	return plVal{}, plErrUnsupported(fmt.Sprintf("literal of Go type %T", r))
}

func plScalar(e *plEnv, n ast.ExprNode) (plVal, string, error) {
	switch x := n.(type) {
	case *driver.ValueExpr:
		v, err := plValueOf(x)
		return v, "", err
	case *ast.ColumnNameExpr:
		return e.lookup(x.Name)
	case *ast.ParenthesesExpr:
		return plScalar(e, x.Expr)
	case *ast.UnaryOperationExpr:
		if x.Op == opcode.Minus {
			v, t, err := plScalar(e, x.V)
			if err != nil {
				return v, t, err
			}
			if v.Null {
				return v, t, nil
			}
			if v.IsStr || v.Big {
				return v, t, plErrUnsupported("unary minus on a string or a big unsigned")
			}
			return plIntV(-v.I), t, nil
		}
	case *ast.BinaryOperationExpr:
		if x.Op == opcode.Plus || x.Op == opcode.Minus {
			a, at, err := plScalar(e, x.L)
			if err != nil {
				return a, at, err
			}
			b, _, err := plScalar(e, x.R)
			if err != nil {
				return b, at, err
			}
			if a.Null || b.Null {
				return plNullV(), at, nil
			}
			if a.IsStr || b.IsStr || a.Big || b.Big {
				return a, at, plErrUnsupported("arithmetic on a string or a big unsigned")
			}
			if x.Op == opcode.Plus {
				return plIntV(a.I + b.I), plTInt, nil
			}
			return plIntV(a.I - b.I), plTInt, nil
		}
	}
	// a condition used as a scalar (1=0, 1=1 produced by the IN rewriting)
	c, err := plCond3(e, n)
	if err != nil {
		return plVal{}, "", err
	}
	switch c {
	case plTrue:
		return plIntV(1), plTInt, nil
	case plFalse:
		return plIntV(0), plTInt, nil
	}
	return plNullV(), plTInt, nil
}

func plNormDate(s string) (string, error) {
	switch len(s) {
	case 10:
		if s[4] == '-' && s[7] == '-' {
			return s + " 00:00:00", nil
		}
	case 19:
		if s[4] == '-' && s[7] == '-' && s[10] == ' ' {
			return s, nil
		}
	}
	return "", plErrUnsupported("date spelling " + s)
}

// plCompare returns (-1|0|1, isNull, error) for a <=> b under the column type hints.
func plCompare(a plVal, at string, b plVal, bt string) (int, bool, error) {
	if a.Null || b.Null {
		return 0, true, nil
	}
	mode := ""
	switch {
	case at == plTDate || bt == plTDate:
		mode = plTDate
	case at == plTInt || bt == plTInt:
		mode = plTInt
	case at == plTStr || bt == plTStr:
		mode = plTStr
	case !a.IsStr && !b.IsStr:
		mode = plTInt
	case a.IsStr && b.IsStr:
		mode = plTStr
	default:
		return 0, false, plErrUnsupported("comparison of an int literal with a string literal")
	}
	switch mode {
	case plTDate:
		if !a.IsStr || !b.IsStr {
			return 0, false, plErrUnsupported("datetime column compared with a number")
		}
		x, err := plNormDate(a.S)
		if err != nil {
			return 0, false, err
		}
		y, err := plNormDate(b.S)
		if err != nil {
			return 0, false, err
		}
		return strings.Compare(x, y), false, nil
	case plTInt:
		x, y := a, b
		var err error
		if a.IsStr {
			if x, err = plParseInt(a.S); err != nil {
				return 0, false, plErrUnsupported("int column compared with non-numeric string " + a.S)
			}
		}
		if b.IsStr {
			if y, err = plParseInt(b.S); err != nil {
				return 0, false, plErrUnsupported("int column compared with non-numeric string " + b.S)
			}
		}
		return plIntCmp(x, y), false, nil
	default:
		if !a.IsStr || !b.IsStr {
			return 0, false, plErrUnsupported("string column compared with a number")
		}
		return strings.Compare(a.S, b.S), false, nil
	}
}

func plCmpOp(op opcode.Op, c int) bool {
	switch op {
	case opcode.EQ:
		return c == 0
	case opcode.NE:
		return c != 0
	case opcode.LT:
		return c < 0
	case opcode.LE:
		return c <= 0
	case opcode.GT:
		return c > 0
	case opcode.GE:
		return c >= 0
	}
	return false
}

func plBool3(b bool) int {
	if b {
		return plTrue
	}
	return plFalse
}

// plCond3 evaluates a condition with MySQL's three-valued logic.
func plCond3(e *plEnv, n ast.ExprNode) (int, error) {
	switch x := n.(type) {
	case *ast.ParenthesesExpr:
		return plCond3(e, x.Expr)
	case *ast.BinaryOperationExpr:
		switch x.Op {
		case opcode.LogicAnd, opcode.LogicOr:
			a, err := plCond3(e, x.L)
			if err != nil {
				return 0, err
			}
			b, err := plCond3(e, x.R)
			if err != nil {
				return 0, err
			}
			if x.Op == opcode.LogicAnd {
				return plAnd3(a, b), nil
			}
			return plOr3(a, b), nil
		case opcode.EQ, opcode.NE, opcode.LT, opcode.LE, opcode.GT, opcode.GE:
			a, at, err := plScalar(e, x.L)
			if err != nil {
				return 0, err
			}
			b, bt, err := plScalar(e, x.R)
			if err != nil {
				return 0, err
			}
			c, null, err := plCompare(a, at, b, bt)
			if err != nil {
				return 0, err
			}
			if null {
				return plUnk, nil
			}
			return plBool3(plCmpOp(x.Op, c)), nil
		}
		return 0, plErrUnsupported("binary operator " + x.Op.String() + " as a condition")
	case *ast.UnaryOperationExpr:
		if x.Op == opcode.Not {
			a, err := plCond3(e, x.V)
			if err != nil {
				return 0, err
			}
			return plNot3(a), nil
		}
		return 0, plErrUnsupported("unary operator as a condition")
	case *ast.PatternInExpr:
		if x.Sel != nil {
			return 0, plErrUnsupported("IN (subquery)")
		}
		a, at, err := plScalar(e, x.Expr)
		if err != nil {
			return 0, err
		}
		res := plFalse
		if a.Null {
			res = plUnk
		} else {
			for _, it := range x.List {
				b, bt, err := plScalar(e, it)
				if err != nil {
					return 0, err
				}
				c, null, err := plCompare(a, at, b, bt)
				if err != nil {
					return 0, err
				}
				if null {
					if res == plFalse {
						res = plUnk
					}
					continue
				}
				if c == 0 {
					res = plTrue
					break
				}
			}
		}
		if x.Not {
			return plNot3(res), nil
		}
		return res, nil
	case *ast.BetweenExpr:
		a, at, err := plScalar(e, x.Expr)
		if err != nil {
			return 0, err
		}
		lo, lt, err := plScalar(e, x.Left)
		if err != nil {
			return 0, err
		}
		hi, ht, err := plScalar(e, x.Right)
		if err != nil {
			return 0, err
		}
		c1, n1, err := plCompare(a, at, lo, lt)
		if err != nil {
			return 0, err
		}
		c2, n2, err := plCompare(a, at, hi, ht)
		if err != nil {
			return 0, err
		}
		ge, le := plUnk, plUnk
		if !n1 {
			ge = plBool3(c1 >= 0)
		}
		if !n2 {
			le = plBool3(c2 <= 0)
		}
		res := plAnd3(ge, le)
		if x.Not {
			return plNot3(res), nil
		}
		return res, nil
	case *ast.IsNullExpr:
		a, _, err := plScalar(e, x.Expr)
		if err != nil {
			return 0, err
		}
		if x.Not {
			return plBool3(!a.Null), nil
		}
		return plBool3(a.Null), nil
	case *driver.ValueExpr:
		v, err := plValueOf(x)
		if err != nil {
			return 0, err
		}
		if v.Null {
			return plUnk, nil
		}
		if v.IsStr {
			return 0, plErrUnsupported("string literal as a condition")
		}
		return plBool3(v.I != 0 || v.Big), nil
	}
	return 0, plErrUnsupported(fmt.Sprintf("condition node %T", n))
}

// ---------------------------------------------------------------- statements

// plTabRef is one table reference of a statement.
type plTabRef struct {
	Schema string // as written (original case)
	Name   string // lower case
	Alias  string // lower case
}

func plCollectRefs(n ast.ResultSetNode, out *[]plTabRef) error {
	switch x := n.(type) {
	case nil:
		return nil
	case *ast.Join:
		if err := plCollectRefs(x.Left, out); err != nil {
			return err
		}
		if x.Right != nil {
			return plCollectRefs(x.Right, out)
		}
		return nil
	case *ast.TableSource:
		tn, ok := x.Source.(*ast.TableName)
		if !ok {
			return plErrUnsupported(fmt.Sprintf("table source %T", x.Source))
		}
		*out = append(*out, plTabRef{Schema: tn.Schema.O, Name: tn.Name.L, Alias: x.AsName.L})
		return nil
	case *ast.TableName:
		*out = append(*out, plTabRef{Schema: x.Schema.O, Name: x.Name.L})
		return nil
	}
	return plErrUnsupported(fmt.Sprintf("result set node %T", n))
}

func plRefsOf(c *ast.TableRefsClause) ([]plTabRef, error) {
	var out []plTabRef
	if c == nil || c.TableRefs == nil {
		return nil, nil
	}
	err := plCollectRefs(c.TableRefs, &out)
	return out, err
}

// plJoinOns returns the ON conditions of a join tree.
func plJoinOns(n ast.ResultSetNode, out *[]ast.ExprNode) {
	if j, ok := n.(*ast.Join); ok {
		plJoinOns(j.Left, out)
		if j.Right != nil {
			plJoinOns(j.Right, out)
		}
		if j.On != nil {
			*out = append(*out, j.On.Expr)
		}
	}
}

// plStmtParts is what the monitors need from a parsed DML statement.
type plStmtParts struct {
	Kind   string // select | update | delete | insert | replace
	Refs   []plTabRef
	Where  ast.ExprNode
	Ons    []ast.ExprNode
	Assign []*ast.Assignment
	Insert *ast.InsertStmt
}

func plParts(stmt ast.StmtNode) (*plStmtParts, error) {
	p := &plStmtParts{}
	var err error
	switch s := stmt.(type) {
	case *ast.SelectStmt:
		p.Kind = "select"
		p.Refs, err = plRefsOf(s.From)
		p.Where = s.Where
		if s.From != nil {
			plJoinOns(s.From.TableRefs, &p.Ons)
		}
	case *ast.UpdateStmt:
		p.Kind = "update"
		p.Refs, err = plRefsOf(s.TableRefs)
		p.Where = s.Where
		p.Assign = s.List
	case *ast.DeleteStmt:
		p.Kind = "delete"
		p.Refs, err = plRefsOf(s.TableRefs)
		p.Where = s.Where
	case *ast.InsertStmt:
		p.Kind = "insert"
		if s.IsReplace {
			p.Kind = "replace"
		}
		p.Refs, err = plRefsOf(s.Table)
		p.Insert = s
	default:
		return nil, plErrUnsupported(fmt.Sprintf("statement %T", stmt))
	}
	return p, err
}

// plNameScan collects every schema qualifier that appears in a statement (table names and
// column names), used to check database-name rewriting.
type plNameScan struct {
	Schemas []string
}

func (s *plNameScan) Enter(n ast.Node) (ast.Node, bool) {
	switch x := n.(type) {
	case *ast.TableName:
		if x.Schema.O != "" {
			s.Schemas = append(s.Schemas, x.Schema.O)
		}
	case *ast.ColumnName:
		if x.Schema.O != "" {
			s.Schemas = append(s.Schemas, x.Schema.O)
		}
	}
	return n, false
}

func (s *plNameScan) Leave(n ast.Node) (ast.Node, bool) { return n, true }

// ---------------------------------------------------------------- store

type plAddr struct {
	Slice string
	DB    string
	Table string
}

func (a plAddr) String() string { return a.Slice + "/" + a.DB + "." + a.Table }

type plRow struct {
	Rid int
	C   map[string]plVal
}

func (r *plRow) clone() *plRow {
	c := make(map[string]plVal, len(r.C))
	for k, v := range r.C {
		c[k] = v
	}
	return &plRow{Rid: r.Rid, C: c}
}

type plStore struct {
	T     map[plAddr][]*plRow
	Types map[string]string // column -> type (one schema for every table of the store)
}

func plNewStore(types map[string]string) *plStore {
	return &plStore{T: map[plAddr][]*plRow{}, Types: types}
}

func (s *plStore) clone() *plStore {
	n := plNewStore(s.Types)
	for a, rows := range s.T {
		cp := make([]*plRow, len(rows))
		for i, r := range rows {
			cp[i] = r.clone()
		}
		n.T[a] = cp
	}
	return n
}

// all returns rid -> rendered row over every table of the store.
func (s *plStore) all() map[int]string {
	out := map[int]string{}
	for _, rows := range s.T {
		for _, r := range rows {
			out[r.Rid] = plRenderRow(r)
		}
	}
	return out
}

// where returns rid -> address of every row.
func (s *plStore) where() map[int]plAddr {
	out := map[int]plAddr{}
	for a, rows := range s.T {
		for _, r := range rows {
			out[r.Rid] = a
		}
	}
	return out
}

func plRenderRow(r *plRow) string {
	keys := make([]string, 0, len(r.C))
	for k := range r.C {
		keys = append(keys, k)
	}
	sort.Strings(keys)
	var sb strings.Builder
	for _, k := range keys {
		sb.WriteString(k)
		sb.WriteByte('=')
		sb.WriteString(r.C[k].String())
		sb.WriteByte(' ')
	}
	return sb.String()
}

// execModify runs one UPDATE or DELETE text against the physical table it addresses when
// sent to (slice, db). Returns affected rows (rows actually changed for UPDATE).
func (s *plStore) execModify(slice, db, sql string) (uint64, error) {
	stmt, err := parser.ParseSQL(sql)
	if err != nil {
		return 0, plErrInvalid("sent text does not parse: " + err.Error())
	}
	p, err := plParts(stmt)
	if err != nil {
		return 0, err
	}
	if p.Kind != "update" && p.Kind != "delete" {
		return 0, plErrUnsupported("execModify of " + p.Kind)
	}
	if len(p.Refs) != 1 {
		return 0, plErrUnsupported("multi-table modify")
	}
	ref := p.Refs[0]
	adb := db
	if ref.Schema != "" {
		adb = ref.Schema
	}
	addr := plAddr{Slice: slice, DB: adb, Table: ref.Name}
	rows, ok := s.T[addr]
	if !ok {
		return 0, plErrInvalid("statement addresses a table that does not exist: " + addr.String())
	}
	names := []string{ref.Name}
	if ref.Alias != "" {
		names = []string{ref.Alias}
	}
	var affected uint64
	kept := rows[:0:0]
	for _, r := range rows {
		env := &plEnv{Tabs: []*plEnvTable{{Names: names, Schema: adb, Row: r.C, Types: s.Types}}}
		match := plTrue
		if p.Where != nil {
			if match, err = plCond3(env, p.Where); err != nil {
				return 0, err
			}
		}
		if match != plTrue {
			kept = append(kept, r)
			continue
		}
		if p.Kind == "delete" {
			affected++
			continue
		}
		changed := false
		for _, a := range p.Assign {
			if _, _, err := env.lookup(a.Column); err != nil {
				return 0, err
			}
			v, _, err := plScalar(env, a.Expr)
			if err != nil {
				return 0, err
			}
			if r.C[a.Column.Name.L] != v {
				r.C[a.Column.Name.L] = v
				changed = true
			}
		}
		if changed {
			affected++
		}
		kept = append(kept, r)
	}
	s.T[addr] = kept
	return affected, nil
}

// ---------------------------------------------------------------- executor

// plExec is the plan.Executor the monitors hand to Plan.ExecuteIn. It records every
// (slice, db, sql) it is asked to run and, when a store is attached, applies UPDATE/DELETE.
// Like the real SessionExecutor.ExecuteSQLs it refuses an empty statement map.
type plSent struct {
	Slice string `json:"slice"`
	DB    string `json:"db"`
	SQL   string `json:"sql"`
}

type plExec struct {
	Store   *plStore
	Fixed   uint64 // without a store: affected rows reported per statement
	Sent    []plSent
	ExecErr error // first error raised by the store (invalid rewritten text...)
	NoLog   bool  // do not keep Sent (used from several goroutines)
	lastID  uint64
}

func (x *plExec) ExecuteSQL(ctx *util.RequestContext, slice, db, sql string) (*mysql.Result, error) {
	rs, err := x.ExecuteSQLs(ctx, map[string]map[string][]string{slice: {db: {sql}}})
	if err != nil {
		return nil, err
	}
	return rs[0], nil
}

func (x *plExec) ExecuteSQLs(ctx *util.RequestContext, sqls map[string]map[string][]string) ([]*mysql.Result, error) {
	if len(sqls) == 0 {
		return nil, fmt.Errorf("no sql to execute")
	}
	var out []*mysql.Result
	slices := make([]string, 0, len(sqls))
	for s := range sqls {
		slices = append(slices, s)
	}
	sort.Strings(slices)
	for _, sl := range slices {
		dbs := make([]string, 0, len(sqls[sl]))
		for d := range sqls[sl] {
			dbs = append(dbs, d)
		}
		sort.Strings(dbs)
		for _, d := range dbs {
			for _, q := range sqls[sl][d] {
				if !x.NoLog {
					x.Sent = append(x.Sent, plSent{Slice: sl, DB: d, SQL: q})
				}
				// like DirectConnection.handleOKPacket: an OK result from the pool, every field assigned
				r := mysql.ResultPool.GetWithoutResultSet()
				r.AffectedRows, r.InsertID, r.Status, r.Warnings, r.Info = x.Fixed, 0, mysql.ServerStatusAutocommit, 0, ""
				if x.Store != nil {
					n, err := x.Store.execModify(sl, d, q)
					if err != nil {
						if x.ExecErr == nil {
							x.ExecErr = err
						}
						return nil, err
					}
					r.AffectedRows = n
				}
				out = append(out, r)
			}
		}
	}
	return out, nil
}

func (x *plExec) SetLastInsertID(id uint64) { x.lastID = id }
func (x *plExec) GetLastInsertID() uint64   { return x.lastID }
func (x *plExec) HandleSet(*util.RequestContext, string, *ast.SetStmt) (*mysql.Result, error) {
	return &mysql.Result{}, nil
}

// plFlatten lists a slice->db->sqls map in deterministic order.
func plFlatten(sqls map[string]map[string][]string) []plSent {
	var out []plSent
	slices := make([]string, 0, len(sqls))
	for s := range sqls {
		slices = append(slices, s)
	}
	sort.Strings(slices)
	for _, sl := range slices {
		dbs := make([]string, 0, len(sqls[sl]))
		for d := range sqls[sl] {
			dbs = append(dbs, d)
		}
		sort.Strings(dbs)
		for _, d := range dbs {
			for _, q := range sqls[sl][d] {
				out = append(out, plSent{Slice: sl, DB: d, SQL: q})
			}
		}
	}
	return out
}
