package plan

// Shared by C01, C03, C04, C05 (tag pl): table layouts for every rule type, namespaces built
// through models.Namespace.Verify + router.NewRouter (the real loading path), boundary-rich
// key universes placed by the rule's own FindTableIndex, literal pools with boundary classes,
// the WHERE-condition grammar with a canonical form and a greedy shrinker, and helpers that
// drive the real planner.

import (
	"encoding/json"
	"fmt"
	"sort"
	"strconv"
	"strings"
	"sync/atomic"
	"time"

	"github.com/XiaoMi/Gaea/models"
	"github.com/XiaoMi/Gaea/mysql"
	"github.com/XiaoMi/Gaea/parser"
	"github.com/XiaoMi/Gaea/parser/ast"
	"github.com/XiaoMi/Gaea/proxy/router"
	"github.com/XiaoMi/Gaea/proxy/sequence"
	"github.com/XiaoMi/Gaea/util"
	kit "github.com/XiaoMi/Gaea/verifkit"
)

// ---------------------------------------------------------------- configuration

type plKey struct {
	V     plVal       // value as stored (dates canonical)
	Go    interface{} // value handed to Rule.FindTableIndex (what an INSERT literal yields)
	SQL   string      // literal text
	Idx   int         // placement
	Class string
}

type plLit struct {
	SQL   string `json:"sql"`
	Class string `json:"class"`
	N     int64  `json:"n,omitempty"` // numeric sort key (int value / unix seconds)
	S     string `json:"s,omitempty"` // string sort key (string keys)
}

// plLitLess orders two literals of the same key column by value.
func plLitCmp(a, b plLit) int {
	if a.N != b.N {
		if a.N < b.N {
			return -1
		}
		return 1
	}
	return strings.Compare(a.S, b.S)
}

type plCfg struct {
	ID       string
	Type     string
	Layout   int
	DB       string
	Table    string
	Key      string
	KeyT     string // plTInt | plTStr | plTDate
	Ts       bool   // calendar rule keyed by unix timestamps (int column)
	Child    string
	ChildKey string
	Glob     string
	Mycat    bool
	Shard    *models.Shard
	SeqCol   string // configured global-sequence column of Table ("" = none)

	NS   *models.Namespace
	RT   *router.Router
	Rule router.Rule
	Seqs *sequence.SequenceManager
	Seq  *plSeq

	Idx     []int
	SliceOf map[int]string
	DBOf    map[int]string
	Keys    []plKey
	Lits    []plLit
	Types   map[string]string // parent table columns
	CTypes  map[string]string // child table columns
	GTypes  map[string]string // global table columns
}

type plSeq struct {
	v  int64
	pk string
}

func (s *plSeq) GetPKName() string       { return s.pk }
func (s *plSeq) NextSeq() (int64, error) { return atomic.AddInt64(&s.v, 1), nil }

func plSliceNames(n int) []string {
	out := make([]string, n)
	for i := range out {
		out[i] = fmt.Sprintf("slice-%d", i)
	}
	return out
}

func plSum(a []int) int {
	s := 0
	for _, x := range a {
		s += x
	}
	return s
}

func plDBList(prefix string, n int) []string {
	out := make([]string, n)
	for i := range out {
		out[i] = prefix + strconv.Itoa(i)
	}
	return out
}

// plCfgSpecs lists (rule type, layout) pairs; three layouts per type.
func plCfgSpecs() []*plCfg {
	var out []*plCfg
	locs := [][]int{{2, 2}, {1, 3, 2}, {1, 1, 1, 1}}
	ks := func(tp string, l int) *plCfg {
		return &plCfg{ID: fmt.Sprintf("%s/L%d", tp, l+1), Type: tp, Layout: l, DB: "dbk", Table: "ts1", Key: "id", KeyT: plTInt,
			Child: "ts1c", ChildKey: "pid", Glob: "gs2"}
	}
	for l := 0; l < 3; l++ {
		for _, tp := range []string{"hash", "mod", "range"} {
			c := ks(tp, l)
			c.Shard = &models.Shard{DB: c.DB, Table: c.Table, Type: tp, Key: c.Key, Locations: locs[l], Slices: plSliceNames(len(locs[l]))}
			if tp == "range" {
				c.Shard.TableRowLimit = []int{100, 10, 1000}[l]
			}
			if tp == "hash" && l == 2 {
				c.KeyT = plTStr
			}
			out = append(out, c)
		}
		years := [][]string{{"2014-2017", "2018-2019"}, {"2016", "2018-2019", "2021"}, {"2019-2020"}}
		months := [][]string{{"201405-201406", "201408-201409"}, {"201511-201602"}, {"201601", "201603-201604"}}
		days := [][]string{{"20140901-20140905", "20140907-20140908"}, {"20151230-20160102"}, {"20160227-20160301"}}
		for i, tp := range []string{"date_year", "date_month", "date_day"} {
			c := ks(tp, l)
			c.Key = "ctime"
			c.KeyT = plTDate
			if l == 2 {
				c.Ts = true
				c.KeyT = plTInt
			}
			dr := [][][]string{years, months, days}[i][l]
			c.Shard = &models.Shard{DB: c.DB, Table: c.Table, Type: tp, Key: c.Key, DateRange: dr, Slices: plSliceNames(len(dr))}
			out = append(out, c)
		}
		for _, tp := range []string{"mycat_mod", "mycat_long", "mycat_string", "mycat_murmur", "mycat_padding_mod"} {
			c := ks(tp, l)
			c.DB = "dbm"
			c.Mycat = true
			n := plSum(locs[l])
			c.Shard = &models.Shard{DB: c.DB, Table: c.Table, Type: tp, Key: c.Key, Locations: locs[l], Slices: plSliceNames(len(locs[l]))}
			if l == 0 {
				c.Shard.Databases = []string{fmt.Sprintf("dbm_[0-%d]", n-1)}
			} else {
				c.Shard.Databases = plDBList("dbm_", n)
			}
			switch tp {
			case "mycat_long", "mycat_string":
				switch n {
				case 4:
					c.Shard.PartitionCount, c.Shard.PartitionLength = "4", "256"
					if l == 2 {
						c.Shard.PartitionCount, c.Shard.PartitionLength = "1,3", "256,256"
					}
				case 6:
					c.Shard.PartitionCount, c.Shard.PartitionLength = "2,4", "256,128"
				}
				if tp == "mycat_string" {
					c.KeyT = plTStr
					c.Shard.HashSlice = []string{"20", "0:2", "-3:"}[l]
				}
			case "mycat_murmur":
				c.Shard.Seed = []string{"0", "7", "0"}[l]
				c.Shard.VirtualBucketTimes = []string{"160", "16", ""}[l]
				if l == 1 {
					c.KeyT = plTStr
				}
			case "mycat_padding_mod":
				c.Shard.PadFrom = []string{"1", "0", "1"}[l]
				c.Shard.PadLength = []string{"18", "18", "6"}[l]
				c.Shard.ModBegin = []string{"10", "10", "1"}[l]
				c.Shard.ModEnd = []string{"16", "16", "4"}[l]
			}
			out = append(out, c)
		}
	}
	return out
}

func plIsCalendar(tp string) bool {
	return tp == "date_year" || tp == "date_month" || tp == "date_day"
}

// plNamespace builds a verified namespace holding the given shard rules.
func plNamespace(slices []string, rules []*models.Shard, seqs []*models.GlobalSequence, dbs []string) (*models.Namespace, error) {
	ns := &models.Namespace{Name: "verif_pl", Online: true, AllowedDBS: map[string]bool{}, DefaultSlice: slices[0],
		Users:      []*models.User{{UserName: "u", Password: "p", Namespace: "verif_pl", RWFlag: 2, RWSplit: 0}},
		ShardRules: rules, GlobalSequences: seqs}
	for _, d := range dbs {
		ns.AllowedDBS[d] = true
	}
	for _, s := range slices {
		ns.Slices = append(ns.Slices, &models.Slice{Name: s, UserName: "root", Password: "root", Master: "127.0.0.1:3306", Capacity: 4, MaxCapacity: 8, IdleTimeout: 3600})
	}
	// round trip through JSON: the proxy loads namespaces from their JSON form
	b, err := json.Marshal(ns)
	if err != nil {
		return nil, err
	}
	out := &models.Namespace{}
	if err := json.Unmarshal(b, out); err != nil {
		return nil, err
	}
	if err := out.Verify(); err != nil {
		return nil, err
	}
	return out, nil
}

// Build loads the layout through the real configuration path and derives the universe.
func (c *plCfg) Build(withSeq string) error {
	c.SeqCol = withSeq
	sh := *c.Shard
	rules := []*models.Shard{&sh,
		{DB: c.DB, Table: c.Child, Type: "linked", Key: c.ChildKey, ParentTable: c.Table}}
	g := &models.Shard{DB: c.DB, Table: c.Glob, Type: "global", Slices: sh.Slices}
	if c.Mycat {
		g.Locations = sh.Locations
		g.Databases = sh.Databases
	} else if !plIsCalendar(c.Type) {
		// the documented kingshard layout: same locations as the sharded tables, implicit database
		g.Locations = sh.Locations
	} else {
		g.Locations = make([]int, len(sh.Slices))
		for i := range g.Locations {
			g.Locations[i] = 1
		}
	}
	rules = append(rules, g)
	var seqs []*models.GlobalSequence
	if withSeq != "" {
		seqs = append(seqs, &models.GlobalSequence{DB: c.DB, Table: c.Table, Type: "test", PKName: withSeq})
	}
	ns, err := plNamespace(sh.Slices, rules, seqs, []string{c.DB})
	if err != nil {
		return fmt.Errorf("namespace %s: %v", c.ID, err)
	}
	rt, err := router.NewRouter(ns)
	if err != nil {
		return fmt.Errorf("router %s: %v", c.ID, err)
	}
	c.NS, c.RT = ns, rt
	rule, ok := rt.GetShardRule(c.DB, c.Table)
	if !ok {
		return fmt.Errorf("rule of %s not found", c.ID)
	}
	c.Rule = rule
	c.Seqs = sequence.NewSequenceManager()
	c.Seq = nil
	if withSeq != "" {
		c.Seq = &plSeq{pk: withSeq}
		c.Seqs.SetSequence(c.DB, c.Table, c.Seq)
	}
	// physical layout from the configuration
	c.Idx = nil
	c.SliceOf, c.DBOf = map[int]string{}, map[int]string{}
	if plIsCalendar(c.Type) {
		for i, dr := range sh.DateRange {
			var ps []int
			switch c.Type {
			case "date_year":
				ps, err = router.ParseYearRange(dr)
			case "date_month":
				ps, err = router.ParseMonthRange(dr)
			default:
				ps, err = router.ParseDayRange(dr)
			}
			if err != nil {
				return err
			}
			for _, p := range ps {
				c.Idx = append(c.Idx, p)
				c.SliceOf[p] = sh.Slices[i]
				c.DBOf[p] = c.DB
			}
		}
	} else {
		var dbs []string
		if c.Mycat {
			if dbs, err = router.GetRealDatabases(sh.Databases); err != nil {
				return err
			}
		}
		n := 0
		for i, l := range sh.Locations {
			for j := 0; j < l; j++ {
				c.Idx = append(c.Idx, n)
				c.SliceOf[n] = sh.Slices[i]
				c.DBOf[n] = c.DB
				if c.Mycat {
					c.DBOf[n] = dbs[n]
				}
				n++
			}
		}
	}
	c.Types = map[string]string{c.Key: c.KeyT, "other": plTInt, "cnt": plTInt, "v": plTStr, "seq": plTInt}
	c.CTypes = map[string]string{c.ChildKey: c.KeyT, "other": plTInt, "cnt": plTInt, "v": plTStr}
	c.GTypes = map[string]string{"gid": plTInt, "gname": plTStr}
	c.buildUniverse()
	return nil
}

// PhysName is the physical table name of logical table tbl at index idx.
func (c *plCfg) PhysName(tbl string, idx int) string {
	if c.Mycat {
		return tbl
	}
	return fmt.Sprintf("%s_%04d", tbl, idx)
}

func (c *plCfg) Addr(tbl string, idx int) plAddr {
	return plAddr{Slice: c.SliceOf[idx], DB: c.DBOf[idx], Table: c.PhysName(tbl, idx)}
}

func (c *plCfg) HasIdx(idx int) bool {
	_, ok := c.SliceOf[idx]
	return ok
}

// IdxOfAddr decodes a physical address of logical table tbl back to its table index.
func (c *plCfg) IdxOfAddr(tbl string, a plAddr) (int, bool) {
	for _, i := range c.Idx {
		if c.Addr(tbl, i) == a {
			return i, true
		}
	}
	return 0, false
}

// Place asks the rule where a key lives; ok=false when the rule refuses it (error or panic) or
// answers with a table that is not configured.
func (c *plCfg) Place(key interface{}) (idx int, ok bool) {
	defer func() {
		if r := recover(); r != nil {
			ok = false
		}
	}()
	i, err := c.Rule.FindTableIndex(key)
	if err != nil || !c.HasIdx(i) {
		return 0, false
	}
	return i, true
}

const plTimeFmt = "2006-01-02 15:04:05"

func (c *plCfg) periodStart(p int) time.Time {
	loc := time.UTC
	if c.Ts {
		loc = time.Local
	}
	switch c.Type {
	case "date_year":
		return time.Date(p, 1, 1, 0, 0, 0, 0, loc)
	case "date_month":
		return time.Date(p/100, time.Month(p%100), 1, 0, 0, 0, 0, loc)
	}
	return time.Date(p/10000, time.Month(p/100%100), p%100, 0, 0, 0, 0, loc)
}

func (c *plCfg) periodNext(t time.Time) time.Time {
	switch c.Type {
	case "date_year":
		return t.AddDate(1, 0, 0)
	case "date_month":
		return t.AddDate(0, 1, 0)
	}
	return t.AddDate(0, 0, 1)
}

func (c *plCfg) periodOf(t time.Time) int {
	switch c.Type {
	case "date_year":
		return t.Year()
	case "date_month":
		return t.Year()*100 + int(t.Month())
	}
	return t.Year()*10000 + int(t.Month())*100 + t.Day()
}

func (c *plCfg) timeClass(t time.Time) string {
	p := c.periodOf(t)
	if !c.HasIdx(p) {
		return "out"
	}
	st := c.periodStart(p)
	switch {
	case t.Equal(st):
		return "start"
	case t.Hour() == 0 && t.Minute() == 0 && t.Second() == 0:
		return "finer" // midnight inside the period: the start of a finer period (a month, a day)
	case t.Year() == st.Year() && t.YearDay() == st.YearDay():
		return "fday" // first day of the period, not midnight
	}
	return "in"
}

// timeLits renders an instant in every accepted spelling.
func (c *plCfg) timeLits(t time.Time) []plLit {
	cl := c.timeClass(t)
	if c.Ts {
		return []plLit{{SQL: strconv.FormatInt(t.Unix(), 10), Class: cl, N: t.Unix()}}
	}
	out := []plLit{{SQL: "'" + t.Format(plTimeFmt) + "'", Class: cl, N: t.Unix()}}
	if t.Hour() == 0 && t.Minute() == 0 && t.Second() == 0 {
		out = append(out, plLit{SQL: "'" + t.Format("2006-01-02") + "'", Class: cl, N: t.Unix()})
	}
	return out
}

func (c *plCfg) addTimeKey(t time.Time) {
	k := plKey{Class: c.timeClass(t)}
	if c.Ts {
		k.V, k.Go, k.SQL = plIntV(t.Unix()), t.Unix(), strconv.FormatInt(t.Unix(), 10)
	} else {
		s := t.Format(plTimeFmt)
		k.V, k.Go, k.SQL = plStrV(s), s, "'"+s+"'"
	}
	if idx, ok := c.Place(k.Go); ok {
		k.Idx = idx
		c.Keys = append(c.Keys, k)
	}
}

func (c *plCfg) addIntKey(v int64, class string) {
	k := plKey{V: plIntV(v), Go: v, SQL: strconv.FormatInt(v, 10), Class: class}
	if idx, ok := c.Place(v); ok {
		k.Idx = idx
		c.Keys = append(c.Keys, k)
	}
}

func (c *plCfg) buildUniverse() {
	c.Keys, c.Lits = nil, nil
	seen := map[string]bool{}
	addLit := func(l plLit) {
		if !seen[l.SQL] {
			seen[l.SQL] = true
			c.Lits = append(c.Lits, l)
		}
	}
	switch {
	case plIsCalendar(c.Type):
		// configured periods (all of them: at most 8 per layout) and their neighbours
		ps := map[int]bool{}
		for _, p := range c.Idx {
			ps[p] = true
		}
		var around []time.Time
		for _, p := range c.Idx {
			st := c.periodStart(p)
			nx := c.periodNext(st)
			mid := st.Add(nx.Sub(st) / 2).Truncate(time.Second)
			midDay := time.Date(mid.Year(), mid.Month(), mid.Day(), 0, 0, 0, 0, mid.Location())
			for _, t := range []time.Time{st, st.Add(time.Second), mid, nx.Add(-time.Second)} {
				c.addTimeKey(t)
			}
			lits := []time.Time{st, st.Add(time.Second), st.Add(12 * time.Hour), midDay, mid, nx.Add(-time.Second)}
			switch c.Type {
			case "date_year":
				// first of a month other than January, and midnight of an ordinary day
				lits = append(lits, st.AddDate(0, 2, 0), st.AddDate(0, 2, 0).Add(time.Second), st.AddDate(0, 9, 14))
			case "date_month":
				lits = append(lits, st.AddDate(0, 0, 1), st.AddDate(0, 0, 1).Add(time.Second))
			default:
				lits = append(lits, st.Add(time.Hour))
			}
			for _, t := range lits {
				for _, l := range c.timeLits(t) {
					addLit(l)
				}
			}
			prev := st.Add(-time.Second)
			if !ps[c.periodOf(prev)] {
				around = append(around, c.periodStart(c.periodOf(prev)), prev)
			}
			if !ps[c.periodOf(nx)] {
				around = append(around, nx, nx.Add(nx.Sub(st)/2).Truncate(time.Second))
			}
		}
		for _, t := range around {
			for _, l := range c.timeLits(t) {
				addLit(l)
			}
		}
	case c.Type == "range":
		n, lim := len(c.Idx), int64(c.Shard.TableRowLimit)
		for k := int64(0); k < int64(n); k++ {
			for _, v := range []int64{k * lim, k*lim + 1, k*lim + lim/2, (k+1)*lim - 1} {
				cl := "in"
				if v == k*lim {
					cl = "start"
				}
				c.addIntKey(v, cl)
				addLit(plLit{SQL: strconv.FormatInt(v, 10), Class: cl, N: v})
			}
		}
		addLit(plLit{SQL: "'" + strconv.FormatInt(lim, 10) + "'", Class: "start", N: lim})
		addLit(plLit{SQL: "'0" + strconv.FormatInt(lim+1, 10) + "'", Class: "in", N: lim + 1})
		for _, v := range []int64{int64(n) * lim, int64(n)*lim + 7} {
			addLit(plLit{SQL: strconv.FormatInt(v, 10), Class: "out", N: v})
		}
		addLit(plLit{SQL: "-1", Class: "neg", N: -1})
	case c.KeyT == plTStr:
		for _, s := range []string{"a", "b", "c", "ab", "abc", "abcd", "user1", "user2", "User1", "zz", "0", "7", "10", "x-1", "k_9", "",
			"long-key-value-0123456789-abcdefghij", "e9", "m", "n", "o", "p"} {
			k := plKey{V: plStrV(s), Go: s, SQL: "'" + s + "'", Class: "v"}
			if idx, ok := c.Place(s); ok {
				k.Idx = idx
				c.Keys = append(c.Keys, k)
			}
			addLit(plLit{SQL: k.SQL, Class: "v", S: s})
		}
	default:
		for _, v := range []int64{0, 1, 2, 3, 4, 5, 6, 7, 8, 9, 10, 11, 12, 13, 15, 16, 17, 31, 32, 33, 99, 100, 101, 255, 256, 257,
			1023, 1024, 1025, 4096, 65537, 2147483647, 2147483648, 9223372036854775807, -1, -2, -3, -5, -16, -1024} {
			cl := "v"
			if v < 0 {
				cl = "neg"
			}
			c.addIntKey(v, cl)
			addLit(plLit{SQL: strconv.FormatInt(v, 10), Class: cl, N: v})
		}
		for _, v := range []int64{0, 5, 16, 1024} {
			addLit(plLit{SQL: "'" + strconv.FormatInt(v, 10) + "'", Class: "v", N: v})
		}
		// unsigned keys at and above 2^63, unquoted and quoted (BIGINT UNSIGNED columns)
		addLit(plLit{SQL: "'9223372036854775807'", Class: "big", N: 1<<63 - 1})
		for _, u := range []uint64{1 << 63, 1<<64 - 1} {
			txt := strconv.FormatUint(u, 10)
			k := plKey{V: plBigV(u), Go: u, SQL: txt, Class: "big"}
			if idx, ok := c.Place(u); ok {
				k.Idx = idx
				c.Keys = append(c.Keys, k)
			}
			addLit(plLit{SQL: txt, Class: "big", N: 1<<63 - 1, S: txt})
			addLit(plLit{SQL: "'" + txt + "'", Class: "big", N: 1<<63 - 1, S: txt})
		}
		if c.Type != "mycat_string" && c.Type != "mycat_murmur" {
			// these rules parse the string as a number, so a leading zero is the same key
			addLit(plLit{SQL: "'05'", Class: "v", N: 5})
			addLit(plLit{SQL: "'016'", Class: "v", N: 16})
		}
	}
}

// LitsOfClass returns the literal pool restricted to a class ("" = all).
func (c *plCfg) LitsOfClass(cl string) []plLit {
	if cl == "" {
		return c.Lits
	}
	var out []plLit
	for _, l := range c.Lits {
		if l.Class == cl {
			out = append(out, l)
		}
	}
	return out
}

// Classes lists the literal classes present in the pool.
func (c *plCfg) Classes() []string {
	m := map[string]bool{}
	for _, l := range c.Lits {
		m[l.Class] = true
	}
	var out []string
	for k := range m {
		out = append(out, k)
	}
	sort.Strings(out)
	return out
}

var plCfgCache = map[string]*plCfg{}

// plGetCfg returns the built layout with the given id ("hash/L1") and sequence column.
func plGetCfg(id, seq string) (*plCfg, error) {
	k := id + "|" + seq
	if c, ok := plCfgCache[k]; ok {
		return c, nil
	}
	for _, c := range plCfgSpecs() {
		if c.ID == id {
			if err := c.Build(seq); err != nil {
				return nil, err
			}
			plCfgCache[k] = c
			return c, nil
		}
	}
	return nil, fmt.Errorf("unknown layout %s", id)
}

func plAllCfgIDs() []string {
	var out []string
	for _, c := range plCfgSpecs() {
		out = append(out, c.ID)
	}
	return out
}

// ---------------------------------------------------------------- driving the planner

type plPlanned struct {
	Fast     bool // taken by the session's token pre-check: no parser, sent verbatim to the default slice
	Unshard  bool // the plan is an UnshardPlan (by the pre-check or by BuildPlan itself)
	ParseErr string
	Err      string // BuildPlan error
	Panic    string // BuildPlan panicked (the session layer recovers and drops the connection)
	Plan     Plan
	SQLs     map[string]map[string][]string
}

func (p *plPlanned) Rejected() bool { return p.ParseErr != "" || p.Err != "" || p.Panic != "" }

func plPlanSQLs(p Plan) map[string]map[string][]string {
	switch x := p.(type) {
	case *SelectPlan:
		return x.GetSQLs()
	case *InsertPlan:
		return x.sqls
	case *UpdatePlan:
		return x.sqls
	case *DeletePlan:
		return x.sqls
	}
	return nil
}

// plSessionPreCheck mirrors proxy/server.(*SessionExecutor).preBuildUnshardPlan
// (executor_handle.go), which decides from the tokens alone whether a statement skips the
// parser and is sent verbatim to the default slice. The decision functions it combines
// (CheckUnshardBase/Insert/Update, HasShardTableToken, PreCreateUnshardPlan) are the real ones
// of this package; only the short combination is repeated here because proxy/server cannot be
// imported from proxy/plan. Not mirrored: the comment-statement and last_insert_id() shortcuts
// (no generated statement starts with a comment or has a 14..16 byte second token) and the
// "no shard rules at all" branch (every layout has rules).
func plSessionPreCheck(c *plCfg, db, sql string) (Plan, bool) {
	rt := c.RT
	phyDBs := plPhyDBs(c)
	tokens := parser.Tokenize(sql)
	if len(tokens) == 0 {
		return nil, false
	}
	ruleDB := db
	isUnshardPlan := true
	tokenID, ok := mysql.ParseTokenMap[strings.ToLower(tokens[0])]
	if !ok {
		return nil, false
	}
	switch tokenID {
	case mysql.TkIdSelect, mysql.TkIdDelete:
		ruleDB, isUnshardPlan = CheckUnshardBase(tokenID, tokens, rt, db)
	case mysql.TkIdReplace, mysql.TkIdInsert:
		ruleDB, isUnshardPlan = CheckUnshardInsert(tokens, rt, db)
	case mysql.TkIdUpdate:
		ruleDB, isUnshardPlan = CheckUnshardUpdate(tokens, rt, db)
	default:
		return nil, false
	}
	if isUnshardPlan && HasShardTableToken(tokens, rt) {
		isUnshardPlan = false
	}
	if isUnshardPlan {
		if p, err := PreCreateUnshardPlan(sql, phyDBs, ruleDB); err == nil {
			return p, true
		}
	}
	return nil, false
}

// plPhyDBs is Namespace.GetPhysicalDBs() of a namespace without default_phy_dbs: identity on allowed dbs.
func plPhyDBs(c *plCfg) map[string]string {
	m := map[string]string{}
	for db := range c.NS.AllowedDBS {
		m[db] = db
	}
	return m
}

// plExecUnshard runs the real UnshardPlan.ExecuteIn with the namespace's default slice in the
// request context and maps the database like SessionExecutor.ExecuteSQL (GetDefaultPhyDB).
func plExecUnshard(c *plCfg, p Plan) (sent []plSent, rejected string) {
	defer func() {
		if r := recover(); r != nil {
			sent, rejected = nil, "exec_panic"
		}
	}()
	x := &plExec{}
	ctx := util.NewRequestContext()
	ctx.SetDefaultSlice(c.NS.DefaultSlice)
	if _, err := p.ExecuteIn(ctx, x); err != nil {
		return nil, "exec_error"
	}
	phy := plPhyDBs(c)
	for i := range x.Sent {
		if x.Sent[i].DB == "" {
			continue
		}
		d, ok := phy[x.Sent[i].DB]
		if !ok {
			return nil, "invalid_db"
		}
		x.Sent[i].DB = d
	}
	return x.Sent, ""
}

// plSentMap turns a list of sent statements into the slice -> db -> sqls shape.
func plSentMap(sent []plSent) map[string]map[string][]string {
	m := map[string]map[string][]string{}
	for _, s := range sent {
		if m[s.Slice] == nil {
			m[s.Slice] = map[string][]string{}
		}
		m[s.Slice][s.DB] = append(m[s.Slice][s.DB], s.SQL)
	}
	return m
}

// plBuild obtains the plan the way a session does (proxy/server getPlan): the token pre-check
// first; otherwise parser.ParseSQL + the real plan.BuildPlan with session database db. For an
// UnshardPlan, SQLs is what UnshardPlan.ExecuteIn sends (verbatim text, default slice).
func plBuild(c *plCfg, db, sql string) (out *plPlanned) {
	out = &plPlanned{}
	if fp, fast := plSessionPreCheck(c, db, sql); fast {
		out.Fast, out.Unshard, out.Plan = true, true, fp
		sent, rej := plExecUnshard(c, fp)
		if rej != "" {
			out.Err = "unshard plan: " + rej
			return
		}
		out.SQLs = plSentMap(sent)
		return
	}
	stmt, err := parser.ParseSQL(sql)
	if err != nil {
		out.ParseErr = err.Error()
		return
	}
	defer func() {
		if r := recover(); r != nil {
			out.Panic = fmt.Sprint(r)
			out.Plan, out.SQLs = nil, nil
		}
	}()
	p, err := BuildPlan(stmt, c.NS.DefaultPhyDBS, db, sql, c.RT, c.Seqs, nil)
	if err != nil {
		out.Err = err.Error()
		return
	}
	out.Plan = p
	if up, ok := p.(*UnshardPlan); ok {
		out.Unshard = true
		sent, rej := plExecUnshard(c, up)
		if rej != "" {
			out.Err = "unshard plan: " + rej
			return
		}
		out.SQLs = plSentMap(sent)
		return
	}
	out.SQLs = plPlanSQLs(p)
	return
}

// plExecute runs Plan.ExecuteIn with the recording executor; a panic is reported as an error.
func plExecute(p Plan, x *plExec) (affected uint64, isNil bool, err error) {
	defer func() {
		if r := recover(); r != nil {
			err = fmt.Errorf("panic in ExecuteIn: %v", r)
		}
	}()
	res, err := p.ExecuteIn(util.NewRequestContext(), x)
	if err != nil {
		return 0, false, err
	}
	if res == nil {
		return 0, true, nil
	}
	return res.AffectedRows, false, nil
}

// plDecodeTargets maps every sent statement to the table index of logical table tbl it
// addresses. unknown lists statements that address no configured physical table.
func plDecodeTargets(c *plCfg, tbl string, sent []plSent) (idxs []int, unknown []plSent, err error) {
	for _, s := range sent {
		stmt, perr := parser.ParseSQL(s.SQL)
		if perr != nil {
			return nil, nil, plErrInvalid("sent text does not parse: " + s.SQL + ": " + perr.Error())
		}
		parts, perr := plParts(stmt)
		if perr != nil {
			return nil, nil, perr
		}
		found := false
		for _, ref := range parts.Refs {
			if c.Mycat {
				if ref.Name != tbl {
					continue
				}
			} else if !strings.HasPrefix(ref.Name, tbl+"_") || strings.Trim(ref.Name[len(tbl)+1:], "0123456789") != "" {
				continue
			}
			db := s.DB
			if ref.Schema != "" {
				db = ref.Schema
			}
			i, ok := c.IdxOfAddr(tbl, plAddr{Slice: s.Slice, DB: db, Table: ref.Name})
			if !ok {
				unknown = append(unknown, s)
			} else {
				idxs = append(idxs, i)
			}
			found = true
			break
		}
		if !found {
			unknown = append(unknown, s)
		}
	}
	return
}

// ---------------------------------------------------------------- condition grammar

// plCond is a WHERE/ON condition tree over column roles (key, other, ckey, gkey).
type plCond struct {
	Op   string    `json:"op"` // and | or | not | cmp | rcmp | in | between | isnull
	Kids []*plCond `json:"kids,omitempty"`
	Col  string    `json:"col,omitempty"`
	Cmp  string    `json:"cmp,omitempty"`
	Neg  bool      `json:"neg,omitempty"`
	Lits []plLit   `json:"lits,omitempty"`
}

func (c *plCond) clone() *plCond {
	if c == nil {
		return nil
	}
	n := &plCond{Op: c.Op, Col: c.Col, Cmp: c.Cmp, Neg: c.Neg, Lits: append([]plLit(nil), c.Lits...)}
	for _, k := range c.Kids {
		n.Kids = append(n.Kids, k.clone())
	}
	return n
}

// SQL renders the tree; cols maps a role to its spelling.
func (c *plCond) SQL(cols map[string]string) string {
	col := cols[c.Col]
	switch c.Op {
	case "and", "or":
		return "(" + c.Kids[0].SQL(cols) + ") " + strings.ToUpper(c.Op) + " (" + c.Kids[1].SQL(cols) + ")"
	case "not":
		return "NOT (" + c.Kids[0].SQL(cols) + ")"
	case "cmp":
		return col + " " + c.Cmp + " " + c.Lits[0].SQL
	case "rcmp":
		return c.Lits[0].SQL + " " + c.Cmp + " " + col
	case "in":
		parts := make([]string, len(c.Lits))
		for i, l := range c.Lits {
			parts[i] = l.SQL
		}
		n := ""
		if c.Neg {
			n = "NOT "
		}
		return col + " " + n + "IN (" + strings.Join(parts, ",") + ")"
	case "between":
		n := ""
		if c.Neg {
			n = "NOT "
		}
		return col + " " + n + "BETWEEN " + c.Lits[0].SQL + " AND " + c.Lits[1].SQL
	case "isnull":
		if c.Neg {
			return col + " IS NOT NULL"
		}
		return col + " IS NULL"
	}
	return "1=1"
}

// Shape is the canonical form used in signatures and non-triviality keys: operators, column
// roles and literal boundary classes; commutative children sorted.
func (c *plCond) Shape() string {
	switch c.Op {
	case "and", "or":
		a, b := c.Kids[0].Shape(), c.Kids[1].Shape()
		if a > b {
			a, b = b, a
		}
		return c.Op + "(" + a + "," + b + ")"
	case "not":
		return "not(" + c.Kids[0].Shape() + ")"
	case "cmp":
		return c.Col + c.Cmp + c.Lits[0].Class
	case "rcmp":
		return c.Lits[0].Class + c.Cmp + c.Col
	case "in":
		cl := make([]string, len(c.Lits))
		for i, l := range c.Lits {
			cl[i] = l.Class
		}
		sort.Strings(cl)
		n := ""
		if c.Neg {
			n = "!"
		}
		return c.Col + n + "in[" + strings.Join(cl, " ") + "]"
	case "between":
		n := ""
		if c.Neg {
			n = "!"
		}
		ord := "asc"
		if plLitCmp(c.Lits[0], c.Lits[1]) > 0 {
			ord = "desc"
		}
		return c.Col + n + "between[" + c.Lits[0].Class + " " + c.Lits[1].Class + "]" + ord
	case "isnull":
		if c.Neg {
			return c.Col + "!isnull"
		}
		return c.Col + "isnull"
	}
	return "?"
}

// UsesCol reports whether the tree mentions the role.
func (c *plCond) UsesCol(role string) bool {
	if c == nil {
		return false
	}
	if c.Col == role {
		return true
	}
	for _, k := range c.Kids {
		if k.UsesCol(role) {
			return true
		}
	}
	return false
}

var plCmps = []string{"=", "<>", "<", "<=", ">", ">="}

// plStrVals are values of the string column v; plStrLits the same as SQL literals (default
// sql_mode: a backslash inside a literal is written doubled).
var plStrVals = []string{"c:\\tmp", "x\\n", "100\\%", "plain", "a\\\\b"}
var plStrLits = func() []plLit {
	var out []plLit
	for _, v := range plStrVals {
		out = append(out, plLit{SQL: "'" + strings.Replace(v, "\\", "\\\\", -1) + "'", Class: "s"})
	}
	return out
}()

var plOtherLits = []plLit{{SQL: "1", Class: "o"}, {SQL: "7", Class: "o"}, {SQL: "3", Class: "o"}}

// plGenAtom draws one atom. roles lists the column roles usable besides "key".
func plGenAtom(r *kit.Rand, c *plCfg, roles []string) *plCond {
	pick := func() plLit { return c.Lits[r.Intn(len(c.Lits))] }
	keyRole := "key"
	if len(roles) > 0 && r.Chance(1, 5) {
		role := roles[r.Intn(len(roles))]
		switch role {
		case "other":
			switch r.Intn(4) {
			case 0:
				return &plCond{Op: "isnull", Col: "other", Neg: r.Bool()}
			case 1:
				return &plCond{Op: "in", Col: "other", Neg: r.Bool(), Lits: []plLit{plOtherLits[r.Intn(3)], plOtherLits[r.Intn(3)]}}
			default:
				return &plCond{Op: "cmp", Col: "other", Cmp: plCmps[r.Intn(6)], Lits: []plLit{plOtherLits[r.Intn(3)]}}
			}
		case "v":
			// string column: literals with quotes-free text and with backslashes (paths, escapes)
			switch r.Intn(3) {
			case 0:
				return &plCond{Op: "in", Col: "v", Neg: r.Bool(), Lits: []plLit{plStrLits[r.Intn(len(plStrLits))], plStrLits[r.Intn(len(plStrLits))]}}
			default:
				return &plCond{Op: "cmp", Col: "v", Cmp: plCmps[r.Intn(6)], Lits: []plLit{plStrLits[r.Intn(len(plStrLits))]}}
			}
		case "gkey":
			return &plCond{Op: "cmp", Col: "gkey", Cmp: plCmps[r.Intn(6)], Lits: []plLit{{SQL: strconv.Itoa(r.Intn(3) + 1), Class: "g"}}}
		case "ckey":
			keyRole = "ckey"
		}
	}
	switch x := r.Intn(20); {
	case x < 7:
		return &plCond{Op: "cmp", Col: keyRole, Cmp: plCmps[r.Intn(6)], Lits: []plLit{pick()}}
	case x < 10:
		return &plCond{Op: "rcmp", Col: keyRole, Cmp: plCmps[r.Intn(6)], Lits: []plLit{pick()}}
	case x < 14:
		n := r.Range(1, 4)
		ls := make([]plLit, n)
		for i := range ls {
			ls[i] = pick()
		}
		return &plCond{Op: "in", Col: keyRole, Neg: r.Chance(1, 3), Lits: ls}
	case x < 19:
		return &plCond{Op: "between", Col: keyRole, Neg: r.Chance(1, 2), Lits: []plLit{pick(), pick()}}
	}
	return &plCond{Op: "isnull", Col: keyRole, Neg: r.Bool()}
}

// plGenCond draws a tree of at most the given depth.
func plGenCond(r *kit.Rand, c *plCfg, depth int, roles []string) *plCond {
	if depth <= 1 || r.Chance(1, 4) {
		return plGenAtom(r, c, roles)
	}
	switch r.Intn(5) {
	case 0:
		return &plCond{Op: "not", Kids: []*plCond{plGenCond(r, c, depth-1, roles)}}
	case 1, 2:
		return &plCond{Op: "and", Kids: []*plCond{plGenCond(r, c, depth-1, roles), plGenCond(r, c, depth-1, roles)}}
	}
	return &plCond{Op: "or", Kids: []*plCond{plGenCond(r, c, depth-1, roles), plGenCond(r, c, depth-1, roles)}}
}

// plShrinkCond greedily removes one feature at a time while fails() stays true; the result
// is 1-minimal with respect to: replacing a node by one of its children, dropping a NOT,
// dropping one IN item.
func plShrinkCond(c *plCond, fails func(*plCond) bool) *plCond {
	cur := c.clone()
	for {
		progressed := false
		for _, cand := range plShrinkCandidates(cur) {
			if fails(cand) {
				cur = cand
				progressed = true
				break
			}
		}
		if !progressed {
			return cur
		}
	}
}

var plClassRank = map[string]int{"s": 0, "out": 0, "neg": 0, "g": 0, "o": 0, "v": 1, "start": 1, "in": 2, "finer": 2, "big": 2}

// plLitSlots lists pointers to every literal of the tree (pre-order).
func plLitSlots(c *plCond, out *[]*plLit) {
	for i := range c.Lits {
		*out = append(*out, &c.Lits[i])
	}
	for _, k := range c.Kids {
		plLitSlots(k, out)
	}
}

// plShrinkLits replaces, one at a time, key literals by a literal of a lower-ranked boundary
// class (out < start < in) while fails() stays true, so that the class vector of the shrunk
// case does not depend on which concrete literals exposed it.
func plShrinkLits(cfg *plCfg, c *plCond, fails func(*plCond) bool) *plCond {
	cur := c.clone()
	for {
		progressed := false
		var slots []*plLit
		plLitSlots(cur, &slots)
	scan:
		for si := range slots {
			have := slots[si].Class
			if have == "o" || have == "g" || have == "s" {
				continue
			}
			for _, cl := range []string{"out", "start", "v", "in", "finer", "big"} {
				if plClassRank[cl] >= plClassRank[have] {
					continue
				}
				for _, l := range cfg.LitsOfClass(cl) {
					cand := cur.clone()
					var cs []*plLit
					plLitSlots(cand, &cs)
					*cs[si] = l
					if fails(cand) {
						cur = cand
						progressed = true
						break scan
					}
				}
			}
		}
		if !progressed {
			return cur
		}
	}
}

func plShrinkCandidates(c *plCond) []*plCond {
	var out []*plCond
	// replace the root by a child
	for _, k := range c.Kids {
		out = append(out, k.clone())
	}
	// shrink a child in place
	for i := range c.Kids {
		for _, sub := range plShrinkCandidates(c.Kids[i]) {
			n := c.clone()
			n.Kids[i] = sub
			out = append(out, n)
		}
	}
	if c.Op == "in" && len(c.Lits) > 1 {
		for i := range c.Lits {
			n := c.clone()
			n.Lits = append(append([]plLit(nil), c.Lits[:i]...), c.Lits[i+1:]...)
			out = append(out, n)
		}
	}
	return out
}

// ---------------------------------------------------------------- statement text

// plSpelled is a table reference and the spelling of the column roles for it.
type plSpelled struct {
	Ref   string            // what follows FROM / UPDATE / INTO / JOIN
	Name  string            // the table name as spelled (no schema, no alias)
	Q     string            // column qualifier prefix ("" | "ts1." | "a." | "dbk.ts1.")
	Alias string            // lower-case alias ("" = none)
	Cols  map[string]string // role -> spelling
}

// plSpellX spells a table reference.
//
//	style: bare (ts1, id) | tbl (ts1, ts1.id) | alias (ts1 AS a, a.id) | db (dbk.ts1, dbk.ts1.id)
//	       | dbalias (dbk.ts1 AS a, a.id) | upper (ts1, ID)
//	deco flags: U upper-case table name, M mixed case, Q back-quoted names, C comment between the
//	       keyword and the name, N alias without AS
func plSpellX(c *plCfg, style, deco, tbl, key, alias string) plSpelled {
	has := func(f string) bool { return strings.Contains(deco, f) }
	name := tbl
	switch {
	case has("U"):
		name = strings.ToUpper(tbl)
	case has("M"):
		name = strings.ToUpper(tbl[:1]) + tbl[1:]
	}
	db := c.DB
	if has("Q") {
		name, db = "`"+name+"`", "`"+c.DB+"`"
	}
	as := " AS "
	if has("N") {
		as = " "
	}
	sp := plSpelled{Name: name}
	switch style {
	case "tbl":
		sp.Ref, sp.Q = name, name+"."
	case "alias":
		sp.Ref, sp.Q, sp.Alias = name+as+alias, alias+".", alias
	case "db":
		sp.Ref, sp.Q = db+"."+name, db+"."+name+"."
	case "dbalias":
		sp.Ref, sp.Q, sp.Alias = db+"."+name+as+alias, alias+".", alias
	default:
		sp.Ref = name
	}
	if has("C") {
		sp.Ref = "/* c */ " + sp.Ref
	}
	up := func(x string) string {
		if style == "upper" {
			return strings.ToUpper(x)
		}
		return x
	}
	sp.Cols = map[string]string{"key": sp.Q + up(key), "other": sp.Q + up("other"), "cnt": sp.Q + up("cnt"), "v": sp.Q + up("v")}
	return sp
}

// plSpell is plSpellX without decorations and with alias a.
func plSpell(c *plCfg, style string, tbl, key string) (ref string, cols map[string]string) {
	sp := plSpellX(c, style, "", tbl, key, "a")
	return sp.Ref, sp.Cols
}

// plDecos are the table-name decorations drawn by the generators ("" most of the time).
var plDecos = []string{"", "", "", "", "U", "M", "Q", "C", "UQ", "MC", "N", "CN", "UN", "QC"}

var plStyles = []string{"bare", "tbl", "alias", "db", "upper", "dbalias"}

// plCondOf returns WHERE and ON conditions of a parsed statement as one conjunction list.
func plCondsOf(stmt ast.StmtNode) ([]ast.ExprNode, *plStmtParts, error) {
	p, err := plParts(stmt)
	if err != nil {
		return nil, nil, err
	}
	var out []ast.ExprNode
	out = append(out, p.Ons...)
	if p.Where != nil {
		out = append(out, p.Where)
	}
	return out, p, nil
}

func plAllTrue(env *plEnv, conds []ast.ExprNode) (bool, error) {
	for _, c := range conds {
		v, err := plCond3(env, c)
		if err != nil {
			return false, err
		}
		if v != plTrue {
			return false, nil
		}
	}
	return true, nil
}

func plSortedInts(m map[int]bool) []int {
	out := make([]int, 0, len(m))
	for k := range m {
		out = append(out, k)
	}
	sort.Ints(out)
	return out
}

var plOthers = []plVal{plNullV(), plIntV(1), plIntV(7)}

// plAtoms enumerates every atom over the key column with literals from pool.
func plAtoms(pool []plLit, pairs bool) []*plCond {
	var out []*plCond
	for _, l := range pool {
		for _, op := range plCmps {
			out = append(out, &plCond{Op: "cmp", Col: "key", Cmp: op, Lits: []plLit{l}})
			out = append(out, &plCond{Op: "rcmp", Col: "key", Cmp: op, Lits: []plLit{l}})
		}
		out = append(out, &plCond{Op: "in", Col: "key", Lits: []plLit{l}})
		out = append(out, &plCond{Op: "in", Col: "key", Neg: true, Lits: []plLit{l}})
	}
	if pairs {
		for _, a := range pool {
			for _, b := range pool {
				out = append(out, &plCond{Op: "between", Col: "key", Lits: []plLit{a, b}})
				out = append(out, &plCond{Op: "between", Col: "key", Neg: true, Lits: []plLit{a, b}})
				out = append(out, &plCond{Op: "in", Col: "key", Lits: []plLit{a, b}})
			}
		}
	}
	out = append(out, &plCond{Op: "isnull", Col: "key"}, &plCond{Op: "isnull", Col: "key", Neg: true})
	return out
}

// plReps picks up to n literals per boundary class.
func plReps(c *plCfg, n int) []plLit {
	var out []plLit
	for _, cl := range c.Classes() {
		ls := c.LitsOfClass(cl)
		step := len(ls) / n
		if step == 0 {
			step = 1
		}
		cnt := 0
		for i := 0; i < len(ls) && cnt < n; i += step {
			out = append(out, ls[i])
			cnt++
		}
	}
	return out
}
