package plan

// C04 — global tables: writes reach every copy exactly once, reads touch exactly one copy,
// database names are rewritten to the physical database of the copy.
//
// Monitor: for every global-table layout (1..4 slices, 1..3 locations per slice, implicit /
// range-pattern / enumerated physical database lists, loaded through Namespace.Verify +
// NewRouter) statements over one or two global tables are planned by the real BuildPlan; the
// slice -> db -> SQL map is the observation. The set of copies is computed from the
// configuration alone: distinct (slice, physical db) pairs.

import (
	"fmt"
	"sort"
	"strconv"
	"strings"
	"testing"

	"github.com/XiaoMi/Gaea/models"
	"github.com/XiaoMi/Gaea/parser"
	"github.com/XiaoMi/Gaea/proxy/router"
	"github.com/XiaoMi/Gaea/proxy/sequence"
	kit "github.com/XiaoMi/Gaea/verifkit"
)

type c04Layout struct {
	ID     string
	Locs   []int
	DBMode string // implicit | range | list
	DB     string // logical database
	Slices []string
	DBOf   []string // physical db per table index
	SlOf   []string // slice per table index
	Copies map[string]bool
	cfg    *plCfg // carrier for plBuild (NS, RT, Seqs)
}

func (l *c04Layout) class() string {
	if l.DBMode != "implicit" {
		return "explicit-db"
	}
	for _, n := range l.Locs {
		if n > 1 {
			return "implicit-db,locations>1"
		}
	}
	return "implicit-db,locations=1"
}

var c04Layouts = map[string]*c04Layout{}

func c04GetLayout(id string) (*c04Layout, error) {
	if l, ok := c04Layouts[id]; ok {
		return l, nil
	}
	// id = <mode>:<l0>,<l1>,...
	parts := strings.SplitN(id, ":", 2)
	if len(parts) != 2 {
		return nil, fmt.Errorf("bad layout id %s", id)
	}
	l := &c04Layout{ID: id, DBMode: parts[0], DB: "dbg", Copies: map[string]bool{}}
	for _, s := range strings.Split(parts[1], ",") {
		n, err := strconv.Atoi(s)
		if err != nil {
			return nil, err
		}
		l.Locs = append(l.Locs, n)
	}
	l.Slices = plSliceNames(len(l.Locs))
	total := plSum(l.Locs)
	var dbCfg []string
	switch l.DBMode {
	case "range":
		if total >= 2 {
			dbCfg = []string{fmt.Sprintf("pg_[0-%d]", total-1)}
		} else {
			dbCfg = []string{"pg_0"}
		}
	case "list":
		for i := 0; i < total; i++ {
			dbCfg = append(dbCfg, "copy_"+string(rune('a'+i)))
		}
	}
	var phys []string
	if len(dbCfg) > 0 {
		var err error
		if phys, err = router.GetRealDatabases(dbCfg); err != nil {
			return nil, err
		}
	}
	i := 0
	for s, n := range l.Locs {
		for j := 0; j < n; j++ {
			db := l.DB
			if phys != nil {
				db = phys[i]
			}
			l.DBOf = append(l.DBOf, db)
			l.SlOf = append(l.SlOf, l.Slices[s])
			l.Copies[l.Slices[s]+"/"+db] = true
			i++
		}
	}
	var rules []*models.Shard
	for _, t := range []string{c04T1, c04T2} {
		rules = append(rules, &models.Shard{DB: l.DB, Table: t, Type: "global", Locations: l.Locs, Slices: l.Slices, Databases: dbCfg})
	}
	ns, err := plNamespace(l.Slices, rules, nil, []string{l.DB})
	if err != nil {
		return nil, err
	}
	rt, err := router.NewRouter(ns)
	if err != nil {
		return nil, err
	}
	l.cfg = &plCfg{ID: id, DB: l.DB, NS: ns, RT: rt, Seqs: sequence.NewSequenceManager()}
	c04Layouts[id] = l
	return l, nil
}

// c04AllLayouts enumerates location vectors for 1..4 slices with 1..3 locations each, in the
// three database-list modes.
func c04AllLayouts() []string {
	var out []string
	var rec func(prefix []int)
	rec = func(prefix []int) {
		if len(prefix) > 0 {
			ss := make([]string, len(prefix))
			for i, n := range prefix {
				ss[i] = strconv.Itoa(n)
			}
			for _, m := range []string{"implicit", "range", "list"} {
				out = append(out, m+":"+strings.Join(ss, ","))
			}
		}
		if len(prefix) == 4 {
			return
		}
		for n := 1; n <= 3; n++ {
			rec(append(append([]int(nil), prefix...), n))
		}
	}
	rec(nil)
	return out
}

const (
	c04T1 = "gtab1"
	c04T2 = "gtab2"
)

// c04Name spells an identifier: lower | upper | mixed | bq (back-quoted) | bqupper
func c04Name(style, id string) string {
	switch style {
	case "upper":
		return strings.ToUpper(id)
	case "mixed":
		return strings.ToUpper(id[:2]) + id[2:]
	case "bq":
		return "`" + id + "`"
	case "bqupper":
		return "`" + strings.ToUpper(id) + "`"
	}
	return id
}

type c04Case struct {
	Layout string   `json:"layout"`
	Kind   string   `json:"kind"`           // ins-values | ins-multi | ins-set | replace | update | delete | select | select-join | select-comma
	Qual   string   `json:"qual"`           // bare | tbl | db | alias | dbalias | dbaliasq (db.alias.col) | colq (insert: qualified column list)
	Where  string   `json:"where"`          // none | eq | in | between
	Name   string   `json:"name,omitempty"` // spelling of table names: "" (lower) | upper | mixed | bq | bqupper
	Extra  []string `json:"extra,omitempty"`
	SQL    string   `json:"sql,omitempty"`
}

func (cs *c04Case) has(x string) bool {
	for _, e := range cs.Extra {
		if e == x {
			return true
		}
	}
	return false
}

func c04IsWrite(kind string) bool {
	return !strings.HasPrefix(kind, "select")
}

// c04Ref spells a table reference and the column prefix for it.
func c04Ref(l *c04Layout, name, qual, tbl, alias string) (ref, q string) {
	tbl = c04Name(name, tbl)
	db := l.DB
	if name == "bq" || name == "bqupper" {
		db = "`" + l.DB + "`" // the database name keeps its case: it is matched case-sensitively everywhere
	}
	switch qual {
	case "tbl":
		return tbl, tbl + "."
	case "db", "colq":
		return db + "." + tbl, db + "." + tbl + "."
	case "alias":
		return tbl + " AS " + alias, alias + "."
	case "dbalias":
		return db + "." + tbl + " AS " + alias, alias + "."
	case "dbaliasq": // columns written db.alias.col: the schema qualifier in front of an alias is rewritten like one in front of the table name
		return db + "." + tbl + " AS " + alias, db + "." + alias + "."
	}
	return tbl, ""
}

func c04SQL(l *c04Layout, cs *c04Case) string {
	ref, q := c04Ref(l, cs.Name, cs.Qual, c04T1, "a")
	t1, t2 := c04Name(cs.Name, c04T1), c04Name(cs.Name, c04T2)
	where := ""
	switch cs.Where {
	case "eq":
		where = " WHERE " + q + "gid = 1"
	case "in":
		where = " WHERE " + q + "gid IN (1,2,3)"
	case "between":
		where = " WHERE " + q + "gid BETWEEN 1 AND 3"
	}
	tail := ""
	if cs.has("orderby") {
		tail += " ORDER BY " + q + "gid"
	}
	if cs.has("limit") {
		tail += " LIMIT 5"
	}
	switch cs.Kind {
	case "ins-values", "ins-multi", "replace":
		verb := "INSERT INTO "
		if cs.Kind == "replace" {
			verb = "REPLACE INTO "
		}
		iref, cq := ref, ""
		if cs.Qual == "colq" {
			cq = q
		}
		if cs.Qual == "alias" || cs.Qual == "dbalias" || cs.Qual == "tbl" {
			iref, _ = c04Ref(l, cs.Name, "bare", c04T1, "")
			if cs.Qual == "dbalias" {
				iref, _ = c04Ref(l, cs.Name, "db", c04T1, "")
			}
			if cs.Qual == "tbl" {
				cq = t1 + "."
			}
		}
		vals := "(1, 'a')"
		if cs.Kind == "ins-multi" {
			vals = "(1, 'a'), (2, 'b'), (3, 'c')"
		}
		s := verb + iref + " (" + cq + "gid, " + cq + "gname) VALUES " + vals
		if cs.has("ondup") && cs.Kind != "replace" {
			// the assigned column carries the same qualification as the statement (db.tbl.col for
			// db-qualified statements, tbl.col for table-qualified ones)
			oq := cq
			if cs.Qual == "db" || cs.Qual == "dbalias" {
				oq = q
				if cs.Qual == "dbalias" {
					_, oq = c04Ref(l, cs.Name, "db", c04T1, "")
				}
			}
			s += " ON DUPLICATE KEY UPDATE " + oq + "gname = 'z'"
		}
		return s
	case "ins-set":
		iref := ref
		if cs.Qual == "alias" || cs.Qual == "tbl" {
			iref = t1
		} else if cs.Qual == "dbalias" || cs.Qual == "colq" {
			iref, _ = c04Ref(l, cs.Name, "db", c04T1, "")
		}
		return "INSERT INTO " + iref + " SET gid = 1, gname = 'a'"
	case "update":
		return "UPDATE " + ref + " SET " + q + "gname = 'x'" + where + tail
	case "delete":
		return "DELETE FROM " + ref + where + tail
	case "select":
		fields := "*"
		if cs.has("fields") {
			fields = q + "gid, " + q + "gname"
		}
		return "SELECT " + fields + " FROM " + ref + where + tail
	case "select-join", "select-comma":
		ref2, q2 := c04Ref(l, cs.Name, cs.Qual, c04T2, "b")
		if cs.Qual == "bare" {
			q, q2 = t1+".", t2+"."
			where = strings.Replace(where, " gid", " "+t1+".gid", 1)
			tail = strings.Replace(tail, " gid", " "+t1+".gid", 1)
		}
		fields := "*"
		if cs.has("fields") {
			fields = q + "gid, " + q2 + "gname"
		}
		if cs.Kind == "select-join" {
			return "SELECT " + fields + " FROM " + ref + " JOIN " + ref2 + " ON " + q + "gid = " + q2 + "gid" + where + tail
		}
		w := " WHERE " + q + "gid = " + q2 + "gid"
		if where != "" {
			w += " AND " + strings.TrimPrefix(where, " WHERE ")
		}
		return "SELECT " + fields + " FROM " + ref + ", " + ref2 + w + tail
	}
	return ""
}

type c04Result struct {
	Clause   string
	Detail   string
	Rejected string
	GenBug   string
	Copy     string // the copy a read went to
	Sent     []plSent
	Fast     bool // taken by the session's token pre-check (no parser)
	Unshard  bool // BuildPlan returned an UnshardPlan
}

func c04Run(cs *c04Case) (res c04Result) {
	l, err := c04GetLayout(cs.Layout)
	if err != nil {
		res.GenBug = err.Error()
		return
	}
	sql := c04SQL(l, cs)
	cs.SQL = sql
	// plBuild obtains the plan the way a session does: token pre-check first, parser + BuildPlan otherwise
	pl := plBuild(l.cfg, l.DB, sql)
	switch {
	case pl.ParseErr != "":
		res.GenBug = "generated text does not parse: " + pl.ParseErr + " :: " + sql
		return
	case pl.Panic != "":
		res.Rejected = "panic"
		return
	case pl.Err != "":
		res.Rejected = "error"
		return
	}
	res.Fast, res.Unshard = pl.Fast, pl.Unshard && !pl.Fast
	if pl.SQLs == nil {
		res.GenBug = fmt.Sprintf("plan %T carries no statement map", pl.Plan)
		return
	}
	sent := plFlatten(pl.SQLs)
	res.Sent = sent
	count := map[string]int{}
	for _, s := range sent {
		stmt, perr := parser.ParseSQL(s.SQL)
		if perr != nil {
			res.Clause, res.Detail = "sent-text-invalid", fmt.Sprintf("text sent to %s/%s does not parse: %s", s.Slice, s.DB, s.SQL)
			return
		}
		key := s.Slice + "/" + s.DB
		if !l.Copies[key] {
			res.Clause, res.Detail = "unknown-copy", fmt.Sprintf("statement sent to %s, which is no configured copy (copies: %v): %s", key, c04Keys(l.Copies), s.SQL)
			return
		}
		scan := &plNameScan{}
		stmt.Accept(scan)
		for _, sch := range scan.Schemas {
			if sch != s.DB {
				res.Clause, res.Detail = "db-not-rewritten", fmt.Sprintf("text sent to copy %s names database %s: %s", key, sch, s.SQL)
				return
			}
		}
		count[key]++
	}
	if c04IsWrite(cs.Kind) {
		for k := range l.Copies {
			if count[k] == 0 {
				res.Clause, res.Detail = "copy-missed", fmt.Sprintf("write is not sent to copy %s (sent: %v)", k, sent)
				return
			}
		}
		for _, k := range c04Keys(l.Copies) {
			if count[k] > 1 {
				res.Clause, res.Detail = "write-duplicated", fmt.Sprintf("write is sent %d times to copy %s (sent: %v)", count[k], k, sent)
				return
			}
		}
		return
	}
	if len(sent) != 1 {
		res.Clause, res.Detail = "read-not-one-copy", fmt.Sprintf("read is sent to %d copies (sent: %v)", len(sent), sent)
		return
	}
	res.Copy = sent[0].Slice + "/" + sent[0].DB
	return
}

func c04Keys(m map[string]bool) []string {
	out := make([]string, 0, len(m))
	for k := range m {
		out = append(out, k)
	}
	sort.Strings(out)
	return out
}

// c04Minimize removes features while the clause keeps failing (reads are retried a few times
// because the copy is chosen at random).
func c04Minimize(cs *c04Case, clause string) (*c04Case, string) {
	cur := *cs
	cur.Extra = append([]string(nil), cs.Extra...)
	fails := func(x *c04Case) bool {
		tries := 1
		if !c04IsWrite(x.Kind) {
			tries = 24
		}
		for i := 0; i < tries; i++ {
			r := c04Run(x)
			if r.GenBug == "" && r.Clause == clause {
				return true
			}
		}
		return false
	}
	for {
		progressed := false
		var cands []*c04Case
		for i := range cur.Extra {
			x := cur
			x.Extra = append(append([]string(nil), cur.Extra[:i]...), cur.Extra[i+1:]...)
			cands = append(cands, &x)
		}
		if cur.Where != "none" {
			x := cur
			x.Where = "none"
			cands = append(cands, &x)
			if cur.Where != "eq" {
				y := cur
				y.Where = "eq"
				cands = append(cands, &y)
			}
		}
		if cur.Name != "" {
			x := cur
			x.Name = ""
			cands = append(cands, &x)
		}
		if cur.Qual != "bare" {
			x := cur
			x.Qual = "bare"
			cands = append(cands, &x)
			if cur.Qual == "dbaliasq" {
				y := cur
				y.Qual = "dbalias"
				cands = append(cands, &y)
			}
			if cur.Qual == "dbalias" || cur.Qual == "colq" {
				y := cur
				y.Qual = "db"
				cands = append(cands, &y)
			}
		}
		switch cur.Kind {
		case "ins-multi", "replace", "ins-set":
			x := cur
			x.Kind = "ins-values"
			cands = append(cands, &x)
		case "select-join", "select-comma":
			x := cur
			x.Kind = "select"
			cands = append(cands, &x)
		}
		for _, x := range cands {
			if fails(x) {
				cur = *x
				progressed = true
				break
			}
		}
		if !progressed {
			break
		}
	}
	l, _ := c04GetLayout(cur.Layout)
	path := cur.Kind
	parts := []string{path, clause, l.class()}
	if cur.Qual != "bare" {
		parts = append(parts, "qual="+cur.Qual)
	}
	if cur.Where != "none" {
		parts = append(parts, "where="+cur.Where)
	}
	if cur.Name != "" {
		parts = append(parts, "name="+cur.Name)
	}
	if r := c04Run(&cur); r.Fast {
		parts = append(parts, "via-token-precheck")
	} else if r.Unshard {
		parts = append(parts, "planned-as-unshard")
	}
	ex := append([]string(nil), cur.Extra...)
	sort.Strings(ex)
	parts = append(parts, ex...)
	c04Run(&cur)
	return &cur, strings.Join(parts, "|")
}

var c04Kinds = []string{"ins-values", "ins-multi", "ins-set", "replace", "update", "delete", "select", "select-join", "select-comma"}
var c04Quals = []string{"bare", "tbl", "db", "alias", "dbalias", "dbaliasq", "colq"}
var c04Wheres = []string{"none", "eq", "in", "between"}

func c04ExtrasFor(kind string) []string {
	switch kind {
	case "ins-values", "ins-multi":
		return []string{"ondup"}
	case "update", "delete":
		return []string{"orderby", "limit"}
	case "select", "select-join", "select-comma":
		return []string{"orderby", "limit", "fields"}
	}
	return nil
}

func c04QualsFor(kind string) []string {
	if strings.HasPrefix(kind, "ins") || kind == "replace" {
		return []string{"bare", "tbl", "db", "colq"}
	}
	return []string{"bare", "tbl", "db", "alias", "dbalias", "dbaliasq"}
}

func TestVerif_C04(t *testing.T) {
	rec := kit.Start("C04", "exploration", "statements over global tables only = layout (1..4 slices x 1..3 locations each x implicit/range/list physical databases) x kind (INSERT values/multi/SET, REPLACE, UPDATE, DELETE, SELECT, two-table JOIN / comma join) x qualification (bare, table, db.table, alias, db.table alias, db.table alias with db.alias.col columns, qualified insert columns) x WHERE form x {ORDER BY, LIMIT, explicit field list, ON DUPLICATE KEY UPDATE}; non-trivial = distinct (layout class, slices, kind, qualification, where, extras) of accepted statements on layouts with more than one copy")
	rec.Assume("the copies of a global table are the distinct (slice, physical database) pairs of its configuration: slices x locations, databases expanded by the documented prefix[lo-hi] rule, or the logical database when no list is given")
	rec.Assume("the rule's slice list equals the namespace's slice list (NewRouter overwrites it with the namespace list anyway); both global tables of a join share one layout")
	defer rec.Finish(t)

	copiesSeen := map[string]map[string]bool{}
	var lastGenBug string
	runOne := func(cs *c04Case, reps int) {
		l, err := c04GetLayout(cs.Layout)
		if err != nil {
			rec.Inconclusive("layout does not load: " + err.Error())
			return
		}
		for i := 0; i < reps; i++ {
			res := c04Run(cs)
			rec.Eval(1)
			if res.GenBug != "" {
				rec.Count("generator_limit", 1)
				lastGenBug = res.GenBug
				return
			}
			if res.Rejected != "" {
				rec.Count("rejected_"+res.Rejected, 1)
				return
			}
			rec.Count("accepted", 1)
			if res.Fast {
				rec.Count("taken_by_token_precheck", 1)
			} else if res.Unshard {
				rec.Count("planned_as_unshard", 1)
			} else {
				rec.Count("planned_by_buildplan", 1)
			}
			if c04IsWrite(cs.Kind) {
				rec.Count("writes_checked", 1)
			} else {
				rec.Count("reads_checked", 1)
				if res.Copy != "" {
					if copiesSeen[cs.Layout] == nil {
						copiesSeen[cs.Layout] = map[string]bool{}
					}
					copiesSeen[cs.Layout][res.Copy] = true
				}
			}
			if len(l.Copies) > 1 && i == 0 {
				ex := append([]string(nil), cs.Extra...)
				sort.Strings(ex)
				rec.Nontrivial(fmt.Sprintf("%s|%d|%s|%s|%s|%s|%s", l.class(), len(l.Locs), cs.Kind, cs.Qual, cs.Where, strings.Join(ex, ","), cs.Name))
				rec.Sample(map[string]interface{}{"layout": cs.Layout, "sql": cs.SQL, "sent": res.Sent, "copies": c04Keys(l.Copies)})
			}
			if res.Clause != "" {
				min, sig := c04Minimize(cs, res.Clause)
				r2 := c04Run(min)
				d := r2.Detail
				if r2.Clause != res.Clause {
					d = res.Detail
				}
				rec.Violation(sig, fmt.Sprintf("[layout %s] %s -- %s", min.Layout, min.SQL, d), min)
				return
			}
		}
	}

	if p := kit.ReplayPath(); p != "" {
		var cs c04Case
		if err := kit.LoadReplay(p, &cs); err != nil {
			t.Fatal(err)
		}
		for i := 0; i < 20; i++ {
			res := c04Run(&cs)
			rec.Eval(1)
			fmt.Printf("replay: %s\n  rejected=%q clause=%q %s sent=%v\n", cs.SQL, res.Rejected, res.Clause, res.Detail, res.Sent)
			if res.Clause != "" {
				_, sig := c04Minimize(&cs, res.Clause)
				rec.Violation(sig, res.Detail, &cs)
				break
			}
		}
		rec.Nontrivial("replay")
		rec.Nontrivial("replay2")
		rec.Sample(cs)
		return
	}

	layouts := c04AllLayouts()
	rec.Set("layouts_total", len(layouts))
	reps := kit.N(12, 200)

	// the full feature cross product; quick samples layouts, thorough takes them all
	var feats []c04Case
	for _, k := range c04Kinds {
		for _, q := range c04QualsFor(k) {
			wheres := c04Wheres
			if strings.HasPrefix(k, "ins") || k == "replace" {
				wheres = []string{"none"}
			}
			for _, w := range wheres {
				exs := c04ExtrasFor(k)
				for mask := 0; mask < 1<<uint(len(exs)); mask++ {
					var ex []string
					for b := range exs {
						if mask&(1<<uint(b)) != 0 {
							ex = append(ex, exs[b])
						}
					}
					feats = append(feats, c04Case{Kind: k, Qual: q, Where: w, Extra: ex})
					if mask == 0 || mask == 1<<uint(len(exs))-1 {
						// table-name spellings: upper, mixed case, back-quoted
						for _, nm := range []string{"upper", "mixed", "bq", "bqupper"} {
							feats = append(feats, c04Case{Kind: k, Qual: q, Where: w, Extra: ex, Name: nm})
						}
					}
				}
			}
		}
	}
	rec.Set("feature_vectors", len(feats))
	r := kit.SubRand(kit.Seed(), "C04/sample")
	if kit.Tier() == "thorough" {
		for _, lid := range layouts {
			for _, f := range feats {
				cs := f
				cs.Layout = lid
				n := 1
				if !c04IsWrite(cs.Kind) && len(cs.Extra) == 0 && cs.Name == "" {
					n = reps
				}
				runOne(&cs, n)
			}
		}
		rec.Exhaustive(true)
	} else {
		// every feature vector on one representative of each layout class + random layouts
		reprs := []string{"implicit:2,2", "implicit:1,1,1", "range:2,2", "list:1,3,2", "implicit:3", "range:1"}
		for _, f := range feats {
			for _, lid := range reprs[:3] {
				cs := f
				cs.Layout = lid
				runOne(&cs, 1)
			}
		}
		for i := 0; i < 1200; i++ {
			cs := feats[r.Intn(len(feats))]
			if i%3 == 0 {
				cs.Layout = reprs[r.Intn(len(reprs))]
			} else {
				cs.Layout = layouts[r.Intn(len(layouts))]
			}
			n := 1
			if !c04IsWrite(cs.Kind) && r.Chance(1, 4) {
				n = reps
			}
			runOne(&cs, n)
		}
	}

	// evidence: which copies the random read choice reached
	full, partial := 0, 0
	for lid, seen := range copiesSeen {
		l, _ := c04GetLayout(lid)
		if len(seen) == len(l.Copies) {
			full++
		} else {
			partial++
		}
	}
	rec.Set("read_layouts_all_copies_seen", full)
	rec.Set("read_layouts_some_copies_seen", partial)
	if s, ok := copiesSeen["range:2,2"]; ok {
		rec.Set("copies_seen_layout_range:2,2", c04Keys(s))
	}
	if g := rec.CounterValue("generator_limit"); g > 0 {
		rec.Set("last_generator_limit", lastGenBug)
		if g*20 > rec.CounterValue("accepted") {
			rec.Inconclusive(fmt.Sprintf("%d generated statements were outside the parser subset (last: %s)", g, lastGenBug))
		}
	}
	if rec.CounterValue("writes_checked") == 0 || rec.CounterValue("reads_checked") == 0 {
		rec.Inconclusive("no accepted write or no accepted read was observed")
	}
}
