package plan

// C05 — UPDATE and DELETE affect exactly the matching rows and never move a row.
//
// Monitor: rows with a hidden unique rid are placed into in-memory physical tables by the
// rule's own FindTableIndex. Each generated UPDATE / DELETE is planned by the real BuildPlan
// and executed through Plan.ExecuteIn (real MergeExecResult) with an executor that runs every
// rewritten statement on the physical table it addresses. The reference is the original text
// executed once on a single table holding all rows. Oracle: same rows afterwards, merged
// AffectedRows = reference count; statements assigning the sharding column are rejected.

import (
	"fmt"
	"sort"
	"strings"
	"sync"
	"testing"

	"github.com/XiaoMi/Gaea/mysql"
	"github.com/XiaoMi/Gaea/util"
	kit "github.com/XiaoMi/Gaea/verifkit"
)

type c05Case struct {
	Cfg     string  `json:"cfg"`
	Kind    string  `json:"kind"` // update | delete | keyassign-update | keyassign-odku
	Style   string  `json:"style"`
	Deco    string  `json:"deco,omitempty"`   // table-name decorations, see plSpellX
	Assign  string  `json:"assign,omitempty"` // lit | inc | two | incq
	SVal    int     `json:"sval,omitempty"`   // assign=str: which string value is assigned
	OrderBy bool    `json:"orderby,omitempty"`
	Cond    *plCond `json:"cond,omitempty"`
	Spell   string  `json:"spell,omitempty"` // keyassign: bare | backquote | upper | tbl | alias | db
	Second  bool    `json:"second,omitempty"`
	Values  bool    `json:"values_func,omitempty"`
	SQL     string  `json:"sql,omitempty"`
}

func c05SQL(c *plCfg, cs *c05Case) string {
	sp := plSpellX(c, cs.Style, cs.Deco, c.Table, c.Key, "a")
	ref, cols := sp.Ref, sp.Cols
	where := ""
	if cs.Cond != nil {
		where = " WHERE " + cs.Cond.SQL(cols)
	}
	order := ""
	if cs.OrderBy {
		order = " ORDER BY " + cols["key"]
	}
	bareCnt := "cnt"
	if cs.Style == "upper" {
		bareCnt = "CNT"
	}
	rhsCnt := bareCnt
	if cs.Style == "alias" || cs.Style == "dbalias" || cs.Assign == "incq" {
		rhsCnt = cols["cnt"]
	}
	switch cs.Kind {
	case "delete":
		return "DELETE FROM " + ref + where + order
	case "update":
		set := ""
		switch cs.Assign {
		case "lit":
			set = cols["cnt"] + " = 9"
		case "inc", "incq":
			set = cols["cnt"] + " = " + rhsCnt + " + 1"
		case "str":
			// a string value with backslashes (default sql_mode: written doubled in the literal)
			set = cols["v"] + " = " + plStrLits[cs.SVal%len(plStrLits)].SQL + ", " + cols["cnt"] + " = 5"
		default:
			set = cols["other"] + " = 3, " + cols["cnt"] + " = " + rhsCnt + " + 2"
		}
		return "UPDATE " + ref + " SET " + set + where + order
	case "keyassign-update", "keyassign-odku":
		key := c.Key
		switch cs.Spell {
		case "backquote":
			key = "`" + c.Key + "`"
		case "upper":
			key = strings.ToUpper(c.Key)
		case "tbl":
			key = c.Table + "." + c.Key
		case "alias":
			key = "a." + c.Key
		case "db":
			key = c.DB + "." + c.Table + "." + c.Key
		}
		lit := c.Keys[0].SQL
		if cs.Kind == "keyassign-update" {
			r := c.Table
			if cs.Spell == "alias" {
				r = c.Table + " AS a"
			}
			if cs.Spell == "db" {
				r = c.DB + "." + c.Table
			}
			set := key + " = " + lit
			if cs.Second {
				set = "cnt = 1, " + set
			}
			return "UPDATE " + r + " SET " + set + where
		}
		rhs := lit
		if cs.Values {
			rhs = "VALUES(" + c.Key + ")"
		}
		set := key + " = " + rhs
		if cs.Second {
			set = "v = 'dup', " + set
		}
		return "INSERT INTO " + c.Table + " (" + c.Key + ", v, other) VALUES (" + lit + ", 'x', 1) ON DUPLICATE KEY UPDATE " + set
	}
	return ""
}

var c05Base = map[string]*plStore{}
var c05Ref = map[string]*plStore{}

// c05Stores builds (once per layout) the sharded store and the single-table reference store
// holding the same rows.
func c05Stores(c *plCfg) (*plStore, *plStore) {
	if s, ok := c05Base[c.ID]; ok {
		return s, c05Ref[c.ID]
	}
	sh, ref := plNewStore(c.Types), plNewStore(c.Types)
	for _, i := range c.Idx {
		sh.T[c.Addr(c.Table, i)] = nil
	}
	refAddr := plAddr{Slice: "", DB: c.DB, Table: c.Table}
	rid := 0
	for ki, k := range c.Keys {
		for j := 0; j < 2; j++ {
			rid++
			other := plOthers[(ki+j)%3]
			row := &plRow{Rid: rid, C: map[string]plVal{c.Key: k.V, "other": other, "cnt": plIntV(int64((ki + 2*j) % 4)), "v": plStrV(c05V(rid))}}
			a := c.Addr(c.Table, k.Idx)
			sh.T[a] = append(sh.T[a], row)
			ref.T[refAddr] = append(ref.T[refAddr], row.clone())
		}
	}
	c05Base[c.ID], c05Ref[c.ID] = sh, ref
	return sh, ref
}

// c05V is the string column of row rid: every third row holds one of the backslash values.
func c05V(rid int) string {
	if rid%3 == 0 {
		return plStrVals[(rid/3)%len(plStrVals)]
	}
	return fmt.Sprintf("r%d", rid)
}

type c05Result struct {
	Clause   string
	Detail   string
	Rejected string // error | panic | exec_invalid
	GenBug   string
	Affected uint64
	RefAff   uint64
	Tables   int // physical tables that received a statement
}

func c05Run(cs *c05Case) (res c05Result) {
	c, err := plGetCfg(cs.Cfg, "")
	if err != nil {
		res.GenBug = err.Error()
		return
	}
	sql := c05SQL(c, cs)
	cs.SQL = sql
	pl := plBuild(c, c.DB, sql)
	switch {
	case pl.ParseErr != "":
		res.GenBug = "generated text does not parse: " + pl.ParseErr + " :: " + sql
		return
	case pl.Panic != "":
		res.Rejected = "panic"
	case pl.Err != "":
		res.Rejected = "error"
	}
	if strings.HasPrefix(cs.Kind, "keyassign") {
		if res.Rejected == "" {
			res.Clause = "key-assignment-accepted"
			res.Detail = fmt.Sprintf("statement assigning the sharding column was accepted; sent: %v", plFlatten(pl.SQLs))
		}
		return
	}
	if res.Rejected != "" {
		return
	}
	if pl.Unshard {
		how := "BuildPlan returned an UnshardPlan"
		if pl.Fast {
			how = "the session's token pre-check took it for a statement on unsharded tables"
		}
		res.Clause = "planned-as-unsharded"
		res.Detail = fmt.Sprintf("UPDATE/DELETE on a sharded table: %s; it is sent verbatim to the default slice only, the rows of the other tables are not touched: %v", how, plFlatten(pl.SQLs))
		return
	}
	base, refBase := c05Stores(c)
	c05Prime(c)
	shards := base.clone()
	x := &plExec{Store: shards}
	affected, merged, xerr := c05Execute(pl.Plan, x)
	if merged != nil {
		// the session writes the OK packet and releases the result (ClientConn.writeOKResult)
		defer merged.Free()
	}
	if xerr != nil {
		switch x.ExecErr.(type) {
		case plErrInvalid:
			// the backend refuses the rewritten text (unknown table / column qualifier): the client
			// gets an error, which is a rejection at execution time
			res.Rejected = "exec_invalid"
			res.Detail = x.ExecErr.Error()
			return
		case plErrUnsupported:
			res.GenBug = x.ExecErr.Error() + " :: " + sql
			return
		}
		res.Rejected = "exec_error"
		res.Detail = xerr.Error()
		return
	}
	res.Affected = affected
	res.Tables = len(x.Sent)
	ref := refBase.clone()
	n, rerr := ref.execModify("", c.DB, sql)
	if rerr != nil {
		res.GenBug = "reference: " + rerr.Error() + " :: " + sql
		return
	}
	res.RefAff = n
	got, want := shards.all(), ref.all()
	var rids []int
	for r := range want {
		rids = append(rids, r)
	}
	for r := range got {
		if _, ok := want[r]; !ok {
			rids = append(rids, r)
		}
	}
	sort.Ints(rids)
	where := base.where()
	for _, r := range rids {
		g, gok := got[r]
		w, wok := want[r]
		if gok != wok || g != w {
			res.Clause = "rows-differ"
			res.Detail = fmt.Sprintf("row rid=%d in %s: single database gives {%s} (present=%v), shards give {%s} (present=%v); %d rewritten statements: %v", r, where[r].String(), w, wok, g, gok, len(x.Sent), c05Short(x.Sent))
			return
		}
	}
	after := shards.where()
	for r, a := range after {
		if where[r] != a {
			res.Clause, res.Detail = "row-moved", fmt.Sprintf("row rid=%d moved from %s to %s", r, where[r].String(), a.String())
			return
		}
	}
	if affected != n {
		res.Clause = "affected-differs"
		res.Detail = fmt.Sprintf("merged AffectedRows=%d, single database changes %d rows; sent: %v", affected, n, c05Short(x.Sent))
	}
	return
}

// c05Execute is plExecute that also hands back the merged result so that it can be released
// the way the session does after writing the OK packet.
func c05Execute(p Plan, x *plExec) (affected uint64, res *mysql.Result, err error) {
	defer func() {
		if r := recover(); r != nil {
			err = fmt.Errorf("panic in ExecuteIn: %v", r)
		}
	}()
	res, err = p.ExecuteIn(util.NewRequestContext(), x)
	if err != nil || res == nil {
		return 0, nil, err
	}
	return res.AffectedRows, res, nil
}

var c05Primers = map[string]Plan{}

// c05Prime plays the sessions that finished just before the statement under test: a broadcast
// UPDATE is executed from two goroutines (each backend statement reports 3 changed rows through
// an OK result taken from mysql.ResultPool, like DirectConnection.handleOKPacket), and the
// merged results are then released like ClientConn.writeOKResult does, more of them than the
// next statement has backend statements. A released result that is not cleared shows up as a
// stale AffectedRows in the next merged result.
func c05Prime(c *plCfg) {
	p, ok := c05Primers[c.ID]
	if !ok {
		pl := plBuild(c, c.DB, "UPDATE "+c.Table+" SET cnt = 7")
		if pl.Rejected() || pl.Unshard {
			return
		}
		p = pl.Plan
		c05Primers[c.ID] = p
	}
	n := len(c.Idx) + 2
	out := make(chan *mysql.Result, n)
	var wg sync.WaitGroup
	for g := 0; g < 2; g++ {
		wg.Add(1)
		go func(g int) {
			defer wg.Done()
			for i := g; i < n; i += 2 {
				_, r, _ := c05Execute(p, &plExec{Fixed: 3, NoLog: true})
				out <- r
			}
		}(g)
	}
	wg.Wait()
	close(out)
	for r := range out {
		if r != nil {
			r.Free()
		}
	}
}

func c05Short(s []plSent) []plSent {
	if len(s) > 4 {
		return s[:4]
	}
	return s
}

func c05Minimize(cs *c05Case, clause string) (*c05Case, string) {
	cur := *cs
	fails := func(x *c05Case) bool {
		r := c05Run(x)
		return r.GenBug == "" && r.Clause == clause
	}
	c, _ := plGetCfg(cur.Cfg, "")
	if strings.HasPrefix(cur.Kind, "keyassign") {
		for {
			progressed := false
			var cands []*c05Case
			if cur.Second {
				x := cur
				x.Second = false
				cands = append(cands, &x)
			}
			if cur.Values {
				x := cur
				x.Values = false
				cands = append(cands, &x)
			}
			if cur.Cond != nil {
				x := cur
				x.Cond = nil
				cands = append(cands, &x)
			}
			if cur.Spell != "bare" {
				x := cur
				x.Spell = "bare"
				cands = append(cands, &x)
			}
			for _, x := range cands {
				if fails(x) {
					cur, progressed = *x, true
					break
				}
			}
			if !progressed {
				break
			}
		}
		parts := []string{clause, cur.Kind, "spell=" + cur.Spell}
		if cur.Second {
			parts = append(parts, "second")
		}
		if cur.Values {
			parts = append(parts, "values()")
		}
		c05Run(&cur)
		return &cur, strings.Join(parts, "|")
	}
	structural := func() {
		for {
			progressed := false
			var cands []*c05Case
			if cur.OrderBy {
				x := cur
				x.OrderBy = false
				cands = append(cands, &x)
			}
			for i := range cur.Deco {
				x := cur
				x.Deco = cur.Deco[:i] + cur.Deco[i+1:]
				cands = append(cands, &x)
			}
			if cur.Style == "dbalias" {
				for _, st := range []string{"db", "alias"} {
					x := cur
					x.Style = st
					cands = append(cands, &x)
				}
			}
			if cur.Style != "bare" {
				x := cur
				x.Style = "bare"
				cands = append(cands, &x)
			}
			if cur.Kind == "update" {
				// routing defects show on both statements: DELETE is the canonical carrier
				x := cur
				x.Kind, x.Assign = "delete", ""
				cands = append(cands, &x)
				if cur.Assign != "lit" {
					y := cur
					y.Assign = "lit"
					cands = append(cands, &y)
				}
			}
			if cur.Cond != nil {
				x := cur
				x.Cond = nil
				cands = append(cands, &x)
			}
			for _, x := range cands {
				if fails(x) {
					cur, progressed = *x, true
					break
				}
			}
			if !progressed {
				return
			}
		}
	}
	structural()
	if cur.Cond != nil {
		cur.Cond = plShrinkCond(cur.Cond, func(k *plCond) bool {
			x := cur
			x.Cond = k
			return fails(&x)
		})
		structural()
	}
	if cur.Cond != nil {
		cur.Cond = plShrinkLits(c, cur.Cond, func(k *plCond) bool {
			x := cur
			x.Cond = k
			return fails(&x)
		})
	}
	parts := []string{c.Type, clause, cur.Kind}
	if clause == "planned-as-unsharded" {
		parts = []string{clause, cur.Kind} // decided from the tokens, before any rule is consulted
	}
	if cur.Deco != "" {
		parts = append(parts, "deco="+cur.Deco)
	}
	if cur.Kind == "update" {
		parts = append(parts, "assign="+cur.Assign)
	}
	if cur.Style != "bare" {
		parts = append(parts, "style="+cur.Style)
	}
	if cur.OrderBy {
		parts = append(parts, "orderby")
	}
	if clause != "planned-as-unsharded" {
		if cur.Cond != nil {
			parts = append(parts, cur.Cond.Shape())
		} else {
			parts = append(parts, "nowhere")
		}
	}
	c05Run(&cur)
	return &cur, strings.Join(parts, "|")
}

func TestVerif_C05(t *testing.T) {
	rec := kit.Start("C05", "exploration", "UPDATE/DELETE = rule layout (12 sharded rule types x 3 layouts, rows = boundary universe x 2 placed by the rule) x kind x reference style (bare, table-, alias-, db-qualified, upper-case columns) x assignment (literal, col+1, two columns) x ORDER BY x WHERE tree (C01 grammar, depth<=3); plus sharding-column assignments (UPDATE and INSERT..ON DUPLICATE KEY UPDATE) x spelling x position; non-trivial = distinct (rule type, kind, style, assignment, condition shape) of accepted statements that changed at least one row on a strict subset of the tables, plus every key-assignment vector")
	rec.Assume("binary collation and type-consistent comparisons (as C01); affected rows are counted as rows actually changed (MySQL default without CLIENT_FOUND_ROWS) by the same evaluator on both sides")
	rec.Assume("a rewritten statement the backend would refuse (unknown table or column qualifier) is a rejection at execution time, not a silent wrong update; it is counted as rejected_exec_invalid")
	defer rec.Finish(t)

	var lastGenBug string
	runOne := func(cs *c05Case) {
		res := c05Run(cs)
		rec.Eval(1)
		if res.GenBug != "" {
			rec.Count("generator_or_evaluator_limit", 1)
			lastGenBug = res.GenBug
			return
		}
		c, _ := plGetCfg(cs.Cfg, "")
		if strings.HasPrefix(cs.Kind, "keyassign") {
			rec.Count("key_assignments_checked", 1)
			rec.Nontrivial(fmt.Sprintf("%s|%s|%s|%v|%v", c.Type, cs.Kind, cs.Spell, cs.Second, cs.Values))
		} else if res.Rejected != "" {
			rec.Count("rejected_"+res.Rejected, 1)
			if res.Rejected == "exec_invalid" {
				rec.Set("last_exec_invalid", cs.SQL+" :: "+res.Detail)
			}
			return
		} else {
			rec.Count("accepted", 1)
			rec.Count("kind_"+cs.Kind, 1)
			rec.Count("rows_changed_reference", int64(res.RefAff))
			if res.RefAff > 0 && res.Tables < len(c.Idx) {
				shape := "nowhere"
				if cs.Cond != nil {
					shape = cs.Cond.Shape()
				}
				rec.Nontrivial(c.Type + "|" + cs.Kind + "|" + cs.Style + "|" + cs.Assign + "|" + shape)
				rec.Sample(map[string]interface{}{"cfg": cs.Cfg, "sql": cs.SQL, "affected": res.Affected, "reference_affected": res.RefAff, "tables_addressed": res.Tables})
			}
		}
		if res.Clause != "" {
			min, sig := c05Minimize(cs, res.Clause)
			r2 := c05Run(min)
			rec.Violation(sig, fmt.Sprintf("[%s] %s -- %s (first seen as: %s)", min.Cfg, min.SQL, r2.Detail, cs.SQL), min)
		}
	}

	if p := kit.ReplayPath(); p != "" {
		var cs c05Case
		if err := kit.LoadReplay(p, &cs); err != nil {
			t.Fatal(err)
		}
		res := c05Run(&cs)
		rec.Eval(1)
		fmt.Printf("replay: %s\n  rejected=%q clause=%q affected=%d reference=%d %s\n", cs.SQL, res.Rejected, res.Clause, res.Affected, res.RefAff, res.Detail)
		if res.Clause != "" {
			_, sig := c05Minimize(&cs, res.Clause)
			rec.Violation(sig, res.Detail, &cs)
		}
		rec.Nontrivial("replay")
		rec.Nontrivial("replay2")
		rec.Sample(cs)
		return
	}

	ids := plAllCfgIDs()
	for _, id := range ids {
		if _, err := plGetCfg(id, ""); err != nil {
			rec.Inconclusive("layout does not load: " + err.Error())
			return
		}
	}

	// (1) sharding-column assignments: full cross product (small)
	for _, id := range ids {
		for _, sp := range []string{"bare", "backquote", "upper", "tbl", "alias", "db"} {
			for _, second := range []bool{false, true} {
				runOne(&c05Case{Cfg: id, Kind: "keyassign-update", Style: "bare", Spell: sp, Second: second})
				c, _ := plGetCfg(id, "")
				runOne(&c05Case{Cfg: id, Kind: "keyassign-update", Style: "bare", Spell: sp, Second: second,
					Cond: &plCond{Op: "cmp", Col: "other", Cmp: "=", Lits: []plLit{plOtherLits[0]}}})
				_ = c
				if sp != "alias" {
					for _, vf := range []bool{false, true} {
						runOne(&c05Case{Cfg: id, Kind: "keyassign-odku", Style: "bare", Spell: sp, Second: second, Values: vf})
					}
				}
			}
		}
	}

	// (2) structured: every atom over class representatives, both kinds, no WHERE
	for _, id := range ids {
		c, _ := plGetCfg(id, "")
		runOne(&c05Case{Cfg: id, Kind: "delete", Style: "bare"})
		runOne(&c05Case{Cfg: id, Kind: "update", Style: "bare", Assign: "inc"})
		pool := plReps(c, kit.N(1, 3))
		for _, a := range plAtoms(pool, true) {
			runOne(&c05Case{Cfg: id, Kind: "delete", Style: "bare", Cond: a})
			runOne(&c05Case{Cfg: id, Kind: "update", Style: "bare", Assign: "inc", Cond: a})
		}
	}

	// (2a) string literals with backslashes in WHERE and SET, every layout
	for _, id := range ids {
		for i, l := range plStrLits {
			eq := &plCond{Op: "cmp", Col: "v", Cmp: "=", Lits: []plLit{l}}
			runOne(&c05Case{Cfg: id, Kind: "delete", Style: "bare", Cond: eq})
			runOne(&c05Case{Cfg: id, Kind: "update", Style: "bare", Assign: "inc", Cond: &plCond{Op: "in", Col: "v", Lits: []plLit{l, plStrLits[(i+1)%len(plStrLits)]}}})
			runOne(&c05Case{Cfg: id, Kind: "update", Style: "bare", Assign: "str", SVal: i, Cond: &plCond{Op: "cmp", Col: "other", Cmp: "=", Lits: []plLit{plOtherLits[0]}}})
		}
	}

	// (2b) every spelling of the table reference with a fixed point condition
	for i, id := range ids {
		if kit.Tier() != "thorough" && i%5 != int(kit.Seed()%5) {
			continue
		}
		c, _ := plGetCfg(id, "")
		point := &plCond{Op: "cmp", Col: "key", Cmp: "=", Lits: []plLit{{SQL: c.Keys[0].SQL, Class: c.Keys[0].Class}}}
		for _, st := range plStyles {
			for _, dc := range []string{"", "U", "M", "Q", "C", "N", "UQ", "MC", "CN", "UN", "QC"} {
				if strings.Contains(dc, "N") && st != "alias" && st != "dbalias" {
					continue
				}
				runOne(&c05Case{Cfg: id, Kind: "delete", Style: st, Deco: dc, Cond: point})
				runOne(&c05Case{Cfg: id, Kind: "update", Style: st, Deco: dc, Assign: "inc", Cond: point})
				runOne(&c05Case{Cfg: id, Kind: "update", Style: st, Deco: dc, Assign: "lit"})
			}
		}
	}

	// (3) random
	r := kit.SubRand(kit.Seed(), "C05/random")
	n := kit.N(2500, 150000)
	assigns := []string{"lit", "inc", "inc", "two", "incq", "str", "str"}
	for i := 0; i < n; i++ {
		id := ids[r.Intn(len(ids))]
		c, _ := plGetCfg(id, "")
		cs := &c05Case{Cfg: id, Kind: "update", Style: plStyles[r.Intn(len(plStyles))], OrderBy: r.Chance(1, 4), Deco: plDecos[r.Intn(len(plDecos))]}
		if r.Chance(2, 5) {
			cs.Kind = "delete"
		} else {
			cs.Assign = assigns[r.Intn(len(assigns))]
			cs.SVal = r.Intn(len(plStrLits))
		}
		if !r.Chance(1, 25) {
			cs.Cond = plGenCond(r, c, r.Range(1, 3), []string{"other", "v"})
		}
		runOne(cs)
	}

	if g := rec.CounterValue("generator_or_evaluator_limit"); g > 0 {
		rec.Set("last_generator_limit", lastGenBug)
		if g*20 > rec.CounterValue("accepted") {
			rec.Inconclusive(fmt.Sprintf("%d generated statements were outside the evaluator/parser subset (last: %s)", g, lastGenBug))
		}
	}
	if rec.CounterValue("rows_changed_reference") == 0 || rec.CounterValue("key_assignments_checked") == 0 {
		rec.Inconclusive("no statement changed a row, or no key assignment was tried")
	}
}
