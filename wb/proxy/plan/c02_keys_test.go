package plan

// C02, key predicates: every pruning form of the sharding key (=, <>, <, <=, >, >=, IN,
// NOT IN, BETWEEN, NOT BETWEEN) with bounds on and inside table boundaries, alone and under
// NOT / OR / AND, on every rule family. The data set DK puts rows on the first key, on the
// last key and inside every table, so a table that is pruned although it holds matching
// rows shows as rows missing from the merged answer.
//
// This is a second, small structured space next to the atom sets of c02_gen: a case is
// (rule family, operator, combinator, position class of the lower bound, of the upper
// bound). A failing class is reduced one feature at a time towards the defaults (plain,
// bounds on a row inside a table, hash family); the 1-minimal failing classes are the
// signatures.

import (
	"fmt"
	"sort"
	"strconv"
	"strings"

	"github.com/XiaoMi/Gaea/parser"
	kit "github.com/XiaoMi/Gaea/verifkit"
)

// positions of a bound inside a table, as indexes into cfg.keys[ordinal]
var c02KeyPos = map[string]int{
	"START": 0,  // first key of the table (for range / calendar rules: the table boundary)
	"END":   1,  // last key of the table
	"ROW":   2,  // a key inside the table that a row of DK uses
	"GAP":   10, // a key inside the table that no row of DK uses
}

var c02KeyPosNames = []string{"START", "END", "ROW", "GAP"}

type c02Bound struct {
	Table string `json:"table"` // T0, T1, TMID, TLAST, or an ordinal ("3") in random cases
	Pos   string `json:"pos"`   // START, END, ROW, GAP, or a key index ("7") in random cases
}

func (b c02Bound) lit(cfg *c02Config) string {
	n := len(cfg.keys)
	o := 0
	switch b.Table {
	case "T0":
		o = 0
	case "T1":
		o = 1
	case "TMID":
		o = n / 2
	case "TLAST":
		o = n - 1
	default:
		o, _ = strconv.Atoi(b.Table)
	}
	if o >= n {
		o = n - 1
	}
	idx, ok := c02KeyPos[b.Pos]
	if !ok {
		idx, _ = strconv.Atoi(b.Pos)
	}
	if idx >= len(cfg.keys[o]) {
		idx = len(cfg.keys[o]) - 1
	}
	return cfg.keys[o][idx]
}

// posClass is the position as it appears in a signature: the default ROW is left out.
func (b c02Bound) posClass() string {
	switch b.Pos {
	case "START", "END", "GAP":
		return b.Pos
	case "0":
		return "START"
	case "1":
		return "END"
	}
	return "ROW"
}

type c02KeyPred struct {
	Op   string     `json:"op"`   // EQ NE LT LE GT GE IN NOT_IN BETWEEN NOT_BETWEEN
	Comb string     `json:"comb"` // PLAIN NOT OR_NONKEY AND_NONKEY AND_KEY OR_KEY
	Lo   c02Bound   `json:"lo"`
	Hi   c02Bound   `json:"hi"`
	List []c02Bound `json:"list,omitempty"`
	Rev  bool       `json:"rev,omitempty"` // BETWEEN with the bounds exchanged (lower above upper)
	Base int        `json:"base"`          // which statement carries the predicate
}

var c02KeyOps = []string{"EQ", "NE", "LT", "LE", "GT", "GE", "IN", "NOT_IN", "BETWEEN", "NOT_BETWEEN"}
var c02KeyCombs = []string{"PLAIN", "NOT", "OR_NONKEY", "AND_NONKEY", "AND_KEY", "OR_KEY"}

const c02KeyBases = 3

// sql builds the statement; ok=false when the bounds of a BETWEEN are not in order.
func (p c02KeyPred) sql(cfg *c02Config) (string, bool) {
	q := ""
	if p.Base == 2 {
		q = "t."
	}
	id := q + "id"
	var pred string
	lo := p.Lo.lit(cfg)
	switch p.Op {
	case "EQ":
		pred = id + " = " + lo
	case "NE":
		pred = id + " <> " + lo
	case "LT":
		pred = id + " < " + lo
	case "LE":
		pred = id + " <= " + lo
	case "GT":
		pred = id + " > " + lo
	case "GE":
		pred = id + " >= " + lo
	case "IN", "NOT_IN":
		var ls []string
		for _, b := range p.List {
			ls = append(ls, b.lit(cfg))
		}
		kw := " IN ("
		if p.Op == "NOT_IN" {
			kw = " NOT IN ("
		}
		pred = id + kw + strings.Join(ls, ", ") + ")"
	case "BETWEEN", "NOT_BETWEEN":
		hi := p.Hi.lit(cfg)
		if c02LitLess(hi, lo, cfg.keyType) != p.Rev {
			return "", false
		}
		kw := " BETWEEN "
		if p.Op == "NOT_BETWEEN" {
			kw = " NOT BETWEEN "
		}
		pred = id + kw + lo + " AND " + hi
	default:
		return "", false
	}
	last := len(cfg.keys) - 1
	switch p.Comb {
	case "NOT":
		pred = "NOT (" + pred + ")"
	case "OR_NONKEY":
		pred = "(" + pred + " OR " + q + "a = 1)"
	case "AND_NONKEY":
		pred = pred + " AND " + q + "a > 1"
	case "AND_KEY":
		pred = pred + " AND " + id + " <= " + cfg.keys[last][2]
	case "OR_KEY":
		pred = "(" + pred + " OR " + id + " = " + cfg.keys[0][2] + ")"
	}
	switch p.Base {
	case 0:
		return "SELECT id, a FROM t WHERE " + pred + " ORDER BY id", true
	case 1:
		return "SELECT COUNT(*) FROM t WHERE " + pred, true
	default:
		return "SELECT t.id, tl.p FROM t JOIN tl ON t.id = tl.id WHERE " + pred + " ORDER BY t.id", true
	}
}

// c02KeyClass is the canonical class of a key-predicate case.
type c02KeyClass struct {
	fam, op, comb, lo, hi, on string
}

var c02KeyBaseNames = []string{"", "ON_COUNT", "ON_JOIN_ORDER"}

func (p c02KeyPred) class(fam string) c02KeyClass {
	c := c02KeyClass{fam: fam, op: p.Op, comb: p.Comb, lo: p.Lo.posClass(), hi: "ROW", on: c02KeyBaseNames[p.Base%c02KeyBases]}
	switch p.Op {
	case "BETWEEN", "NOT_BETWEEN":
		c.hi = p.Hi.posClass()
		if p.Rev {
			c.lo, c.hi = "REVERSED", "REVERSED"
		}
	case "IN", "NOT_IN":
		// a list is classified by the boundary positions it holds
		set := map[string]bool{}
		for _, b := range p.List {
			set[b.posClass()] = true
		}
		var names []string
		for _, n := range c02KeyPosNames {
			if set[n] && n != "ROW" {
				names = append(names, n)
			}
		}
		c.lo = "ROW"
		if len(names) > 0 {
			c.lo = strings.Join(names, "_")
		}
	}
	return c
}

func (c c02KeyClass) sig(clause string) string {
	parts := []string{"KEY_" + c.op}
	if c.comb != "PLAIN" {
		parts = append(parts, "UNDER_"+c.comb)
	}
	if c.lo != "ROW" {
		parts = append(parts, "LO_"+c.lo)
	}
	if c.hi != "ROW" {
		parts = append(parts, "HI_"+c.hi)
	}
	if c.on != "" {
		parts = append(parts, c.on)
	}
	if c.fam != "" {
		parts = append(parts, c.fam)
	}
	return clause + "|" + strings.Join(parts, "+")
}

// reductions: one feature at a time towards the defaults.
func (c c02KeyClass) reductions() []c02KeyClass {
	var out []c02KeyClass
	if c.comb != "PLAIN" {
		r := c
		r.comb = "PLAIN"
		out = append(out, r)
	}
	if c.hi != "ROW" && c.hi != "REVERSED" {
		r := c
		r.hi = "ROW"
		out = append(out, r)
	}
	if c.lo != "ROW" {
		r := c
		r.lo = "ROW"
		if c.lo == "REVERSED" {
			r.hi = "ROW"
		}
		out = append(out, r)
	}
	if c.on != "" {
		r := c
		r.on = ""
		out = append(out, r)
	}
	if c.fam != "" {
		r := c
		r.fam = ""
		out = append(out, r)
	}
	return out
}

// c02KeyGridPreds is the exhaustive grid of predicates (independent of the layout).
func c02KeyGridPreds() []c02KeyPred {
	var preds []c02KeyPred
	var base []c02KeyPred
	for _, op := range []string{"EQ", "NE", "LT", "LE", "GT", "GE"} {
		for _, tb := range []string{"T0", "TMID", "TLAST"} {
			for _, pos := range c02KeyPosNames {
				base = append(base, c02KeyPred{Op: op, Lo: c02Bound{tb, pos}})
			}
		}
	}
	lists := [][]c02Bound{
		{{"T0", "ROW"}, {"TMID", "ROW"}, {"TLAST", "ROW"}},
		{{"T0", "ROW"}, {"T1", "START"}, {"TLAST", "END"}},
		{{"T1", "GAP"}},
		{{"TMID", "ROW"}, {"TMID", "END"}, {"TMID", "START"}},
		{{"T0", "START"}, {"TLAST", "GAP"}},
	}
	for _, op := range []string{"IN", "NOT_IN"} {
		for _, l := range lists {
			base = append(base, c02KeyPred{Op: op, List: l})
		}
	}
	for _, op := range []string{"BETWEEN", "NOT_BETWEEN"} {
		for _, lt := range []string{"T0", "T1"} {
			for _, lp := range c02KeyPosNames {
				for _, ht := range []string{"T1", "TLAST"} {
					for _, hp := range c02KeyPosNames {
						base = append(base, c02KeyPred{Op: op, Lo: c02Bound{lt, lp}, Hi: c02Bound{ht, hp}})
					}
				}
			}
		}
		base = append(base, c02KeyPred{Op: op, Lo: c02Bound{"TLAST", "ROW"}, Hi: c02Bound{"T0", "ROW"}, Rev: true})
		base = append(base, c02KeyPred{Op: op, Lo: c02Bound{"T1", "END"}, Hi: c02Bound{"T1", "START"}, Rev: true})
	}
	for _, b := range base {
		for _, comb := range c02KeyCombs {
			for bs := 0; bs < c02KeyBases; bs++ {
				p := b
				p.Comb, p.Base = comb, bs
				preds = append(preds, p)
			}
		}
	}
	return preds
}

// c02KeyData: four rows on every table: first key, last key, two keys inside.
func c02KeyData() c02DataSpec {
	d := c02DataSpec{Name: "DK"}
	for j := 0; j < 4; j++ { // key index order: START, END, ROW, another inside row
		for o := 0; o < 4; o++ {
			d.T = append(d.T, c02TR(o, strconv.Itoa(1+(o+j)%3), "'x'", "1.50", strconv.Itoa(j-1), "'a'", "0.5", "'b'"))
		}
	}
	// rows are loaded shard by shard in key-index order: list them grouped by shard
	sort.SliceStable(d.T, func(i, k int) bool { return d.T[i].Shard < d.T[k].Shard })
	for i := range d.T {
		d.L = append(d.L, c02LRow{Of: i, V: [2]string{strconv.Itoa(i % 3), "'q'"}})
	}
	return d
}

type c02KeyCase struct {
	Cfg  c02CfgSpec  `json:"cfg"`
	Data c02DataSpec `json:"data"`
	Pred c02KeyPred  `json:"pred"`
	SQL  string      `json:"sql"`
	Sent []string    `json:"sent,omitempty"`
	Note string      `json:"note,omitempty"`
}

type c02KeyFail struct {
	clause string
	what   string
	cse    c02KeyCase
}

type c02KeyGrid struct {
	fails map[c02KeyClass]map[string]c02KeyFail // classes that fail on the fixed grid: clause -> first witness
	seen  map[c02KeyClass]bool
}

// c02RunKeyGrid evaluates the whole grid on DK for both layouts of every rule family.
func c02RunKeyGrid(rec *kit.Rec, suite *c02Suite, parsers []*parser.Parser) (*c02KeyGrid, error) {
	g := &c02KeyGrid{fails: map[c02KeyClass]map[string]c02KeyFail{}, seen: map[c02KeyClass]bool{}}
	preds := c02KeyGridPreds()
	type job struct {
		w    *c02World
		fam  string
		pred c02KeyPred
		sql  string
	}
	var jobs []job
	for _, fam := range c02Families {
		for _, sc := range suite.fam[fam] {
			w, err := c02Load(sc.cfg, c02KeyData())
			if err != nil {
				return nil, err
			}
			for _, p := range preds {
				sql, ok := p.sql(sc.cfg)
				if !ok {
					continue
				}
				jobs = append(jobs, job{w: w, fam: fam, pred: p, sql: sql})
			}
		}
	}
	outs := make([]c02Outcome, len(jobs))
	c02Parallel(len(jobs), func(w, i int) {
		outs[i] = c02RunCase(jobs[i].w, jobs[i].sql, parsers[w])
	})
	for i, o := range outs {
		j := jobs[i]
		cl := j.pred.class(j.fam)
		rec.Eval(1)
		rec.Count("keygrid."+o.status, 1)
		if o.status == "skipped" {
			rec.Set("keygrid.last_skip", o.detail+" :: "+j.sql)
			continue
		}
		g.seen[cl] = true
		if o.stmts >= 1 && o.stmts < len(j.w.cfg.shards) {
			rec.Count("keygrid.pruned_cases", 1)
			rec.Count("keygrid.pruned."+j.pred.Op, 1)
		}
		if o.stmts >= 2 {
			rec.Nontrivial("key:" + cl.sig(""))
		}
		if o.status == "fail" {
			if g.fails[cl] == nil {
				g.fails[cl] = map[string]c02KeyFail{}
			}
			if _, ok := g.fails[cl][o.clause]; !ok {
				g.fails[cl][o.clause] = c02KeyFail{clause: o.clause, what: fmt.Sprintf("%s on %s/DK: %s", j.sql, j.w.cfg.spec, o.detail),
					cse: c02KeyCase{Cfg: j.w.cfg.spec, Data: j.w.data, Pred: j.pred, SQL: j.sql, Sent: o.sent}}
			}
		}
	}
	rec.Set("keygrid.classes", len(g.seen))
	rec.Set("keygrid.failing_classes", len(g.fails))
	if rec.CounterValue("keygrid.skipped") > 0 {
		rec.Inconclusive(fmt.Sprintf("the rig could not evaluate %d key-predicate cases", rec.CounterValue("keygrid.skipped")))
	}
	return g, nil
}

// hasFail: the class or something it reduces to fails on the fixed grid.
func (g *c02KeyGrid) hasFail(c c02KeyClass, memo map[c02KeyClass]bool) bool {
	if v, ok := memo[c]; ok {
		return v
	}
	_, f := g.fails[c]
	memo[c] = f
	for _, r := range c.reductions() {
		if g.hasFail(r, memo) {
			f = true
		}
	}
	memo[c] = f
	return f
}

// minimalFrom returns the 1-minimal failing classes among a class and everything it
// reduces to (fails, and no reduction of it fails or leads to a failing class).
// Empty: neither the class nor anything it reduces to fails on the fixed grid.
func (g *c02KeyGrid) minimalFrom(c c02KeyClass) []c02KeyClass {
	memo := map[c02KeyClass]bool{}
	var out []c02KeyClass
	visited := map[c02KeyClass]bool{}
	var walk func(c c02KeyClass)
	walk = func(c c02KeyClass) {
		if visited[c] {
			return
		}
		visited[c] = true
		below := false
		for _, r := range c.reductions() {
			if g.hasFail(r, memo) {
				below = true
			}
			walk(r)
		}
		if _, f := g.fails[c]; f && !below {
			out = append(out, c)
		}
	}
	walk(c)
	return out
}

// report records a 1-minimal failing class, once per failing oracle clause (only the given
// clause when one is named).
func (g *c02KeyGrid) report(rec *kit.Rec, c c02KeyClass, only string) {
	var clauses []string
	for cl := range g.fails[c] {
		clauses = append(clauses, cl)
	}
	sort.Strings(clauses)
	for _, cl := range clauses {
		if only == "" || only == cl {
			f := g.fails[c][cl]
			rec.Violation(c.sig(cl), f.what, f.cse)
		}
	}
}

// reportAll reports every 1-minimal failing class of the grid.
func (g *c02KeyGrid) reportAll(rec *kit.Rec) {
	var cls []c02KeyClass
	for c := range g.fails {
		cls = append(cls, c)
	}
	sort.Slice(cls, func(i, j int) bool { return cls[i].sig("") < cls[j].sig("") })
	done := map[c02KeyClass]bool{}
	for _, c := range cls {
		for _, m := range g.minimalFrom(c) {
			if !done[m] {
				done[m] = true
				g.report(rec, m, "")
			}
		}
	}
}

// c02RandomKeyPred draws a predicate with arbitrary tables and key positions.
func c02RandomKeyPred(r *kit.Rand) c02KeyPred {
	rb := func() c02Bound {
		pos := strconv.Itoa(r.Intn(c02KeysPerShard))
		if r.Chance(1, 2) {
			pos = r.Pick(c02KeyPosNames)
		}
		return c02Bound{Table: strconv.Itoa(r.Intn(16)), Pos: pos}
	}
	p := c02KeyPred{Op: r.Pick(c02KeyOps), Comb: r.Pick(c02KeyCombs), Lo: rb(), Hi: rb(), Base: r.Intn(c02KeyBases)}
	if r.Chance(2, 3) {
		p.Comb = "PLAIN"
	}
	for n := r.Range(1, 4); n > 0; n-- {
		p.List = append(p.List, rb())
	}
	return p
}

// sqlAnyOrder builds the statement of a random predicate: BETWEEN bounds are put in order
// (or, one time in eight, deliberately reversed).
func (p *c02KeyPred) sqlAnyOrder(cfg *c02Config, r *kit.Rand) (string, bool) {
	if p.Op == "BETWEEN" || p.Op == "NOT_BETWEEN" {
		less := c02LitLess(p.Hi.lit(cfg), p.Lo.lit(cfg), cfg.keyType)
		if less {
			p.Lo, p.Hi = p.Hi, p.Lo
		}
		if r.Chance(1, 8) && p.Lo.lit(cfg) != p.Hi.lit(cfg) {
			p.Lo, p.Hi = p.Hi, p.Lo
			p.Rev = true
		}
	}
	return p.sql(cfg)
}

func c02ReplayKey(rec *kit.Rec, c c02KeyCase) {
	ps := parser.New()
	cfg, err := c02NewConfig(c.Cfg)
	if err != nil {
		rec.Inconclusive("replay: " + err.Error())
		return
	}
	w, err := c02Load(cfg, c.Data)
	if err != nil {
		rec.Inconclusive("replay: " + err.Error())
		return
	}
	o := c02RunCase(w, c.SQL, ps)
	rec.Eval(1)
	rec.Nontrivial("replay")
	rec.Nontrivial(c.SQL)
	rec.Sample(map[string]interface{}{"sql": c.SQL, "status": o.status, "clause": o.clause, "detail": o.detail, "sent": o.sent})
	fmt.Printf("replay: %s\n  status=%s clause=%s\n  %s\n", c.SQL, o.status, o.clause, o.detail)
	for _, s := range o.sent {
		fmt.Println("  sent:", s)
	}
	if o.status == "fail" {
		rec.Violation(c.Pred.class(cfg.family).sig(o.clause), c.SQL+": "+o.detail, c)
	}
}
