package plan

// C02 rig R1: an in-memory store of physical tables and an evaluator over Gaea's own AST
// for the generated subset of SELECT. Results are turned into *mysql.Result through the
// real text-protocol path (Field.Dump -> FieldData.Parse, text row -> RowData.ParseText)
// so the merge code sees exactly the Go types it sees in production.

import (
	"fmt"
	"sort"
	"strconv"
	"strings"

	"github.com/shopspring/decimal"

	"github.com/XiaoMi/Gaea/mysql"
	"github.com/XiaoMi/Gaea/parser"
	"github.com/XiaoMi/Gaea/parser/ast"
	"github.com/XiaoMi/Gaea/parser/opcode"
	types "github.com/XiaoMi/Gaea/parser/tidb-types"
	driver "github.com/XiaoMi/Gaea/parser/tidb-types/parser_driver"
	"github.com/XiaoMi/Gaea/util"
)

// ---------------------------------------------------------------- values

type c02Kind int

const (
	c02Null c02Kind = iota
	c02Int
	c02Dec
	c02Flt
	c02Str
)

type c02Val struct {
	k c02Kind
	i int64
	d decimal.Decimal
	f float64
	s string
}

func c02IntV(i int64) c02Val           { return c02Val{k: c02Int, i: i} }
func c02StrV(s string) c02Val          { return c02Val{k: c02Str, s: s} }
func c02DecV(d decimal.Decimal) c02Val { return c02Val{k: c02Dec, d: d} }
func c02FltV(f float64) c02Val         { return c02Val{k: c02Flt, f: f} }

var c02NullV = c02Val{}

func (v c02Val) isNum() bool { return v.k == c02Int || v.k == c02Dec || v.k == c02Flt }

func (v c02Val) dec() decimal.Decimal {
	switch v.k {
	case c02Int:
		return decimal.NewFromInt(v.i)
	case c02Dec:
		return v.d
	case c02Flt:
		return decimal.NewFromFloat(v.f)
	}
	return decimal.Decimal{}
}

// c02NormDec renders a number so that numerically equal values have equal text.
func c02NormDec(d decimal.Decimal) string {
	if d.IsZero() {
		return "0"
	}
	s := d.String()
	if strings.Contains(s, ".") {
		s = strings.TrimRight(s, "0")
		s = strings.TrimSuffix(s, ".")
	}
	return s
}

// canon is a collision-free typed encoding (used for DISTINCT, grouping and row multisets).
func (v c02Val) canon() string {
	switch v.k {
	case c02Null:
		return "N"
	case c02Str:
		return "s" + strconv.Itoa(len(v.s)) + ":" + v.s
	default:
		return "n" + c02NormDec(v.dec())
	}
}

func c02RowCanon(row []c02Val) string {
	var sb strings.Builder
	for _, v := range row {
		sb.WriteString(v.canon())
		sb.WriteByte('|')
	}
	return sb.String()
}

// c02Type is the column definition MySQL would report for an expression.
type c02Type struct {
	typ     uint8
	flag    uint16
	dec     uint8
	kind    c02Kind // kind of non-NULL values
	charset uint16
	length  uint32
}

const (
	c02FlagNotNull = uint16(mysql.NotNullFlag)
	c02FlagPriKey  = uint16(mysql.PriKeyFlag)
	c02FlagBinary  = uint16(mysql.BinaryFlag)
)

var (
	c02TInt      = c02Type{typ: mysql.TypeLong, kind: c02Int, charset: 63, length: 11}
	c02TIntKey   = c02Type{typ: mysql.TypeLong, flag: c02FlagNotNull | c02FlagPriKey, kind: c02Int, charset: 63, length: 11}
	c02TBig      = c02Type{typ: mysql.TypeLonglong, kind: c02Int, charset: 63, length: 20}
	c02TCount    = c02Type{typ: mysql.TypeLonglong, flag: c02FlagNotNull | c02FlagBinary, kind: c02Int, charset: 63, length: 21}
	c02TDec2     = c02Type{typ: mysql.TypeNewDecimal, dec: 2, kind: c02Dec, charset: 63, length: 12}
	c02TDbl      = c02Type{typ: mysql.TypeDouble, dec: 31, kind: c02Flt, charset: 63, length: 22}
	c02TStr      = c02Type{typ: mysql.TypeVarString, kind: c02Str, charset: 33, length: 192}
	c02TStrKey   = c02Type{typ: mysql.TypeVarString, flag: c02FlagNotNull | c02FlagPriKey, kind: c02Str, charset: 33, length: 192}
	c02TDateKey  = c02Type{typ: mysql.TypeDatetime, flag: c02FlagNotNull | c02FlagPriKey | c02FlagBinary, kind: c02Str, charset: 63, length: 19}
	c02TLitInt   = c02Type{typ: mysql.TypeLonglong, flag: c02FlagNotNull | c02FlagBinary, kind: c02Int, charset: 63, length: 2}
	c02TLitStr   = c02Type{typ: mysql.TypeVarString, flag: c02FlagNotNull, kind: c02Str, charset: 33, length: 30}
	c02TLitDec   = c02Type{typ: mysql.TypeNewDecimal, flag: c02FlagNotNull | c02FlagBinary, dec: 2, kind: c02Dec, charset: 63, length: 12}
	c02TLitFlt   = c02Type{typ: mysql.TypeDouble, flag: c02FlagNotNull | c02FlagBinary, dec: 31, kind: c02Flt, charset: 63, length: 22}
	c02TNullType = c02Type{typ: mysql.TypeNull, kind: c02Null, charset: 63}
)

// text renders a non-NULL value the way MySQL's text protocol does for a column of type t.
func (v c02Val) text(t c02Type) string {
	switch v.k {
	case c02Int:
		return strconv.FormatInt(v.i, 10)
	case c02Dec:
		return v.d.StringFixed(int32(t.dec))
	case c02Flt:
		return strconv.FormatFloat(v.f, 'g', -1, 64)
	case c02Str:
		return v.s
	}
	return ""
}

// c02ParseLit turns the SQL literal text used in data specs (NULL, 12, -3, 1.50, 'a+') into a value of type t.
func c02ParseLit(lit string, t c02Type) (c02Val, error) {
	if lit == "NULL" {
		return c02NullV, nil
	}
	if len(lit) >= 2 && lit[0] == '\'' && lit[len(lit)-1] == '\'' {
		return c02StrV(strings.Replace(lit[1:len(lit)-1], "''", "'", -1)), nil
	}
	switch t.kind {
	case c02Int:
		i, err := strconv.ParseInt(lit, 10, 64)
		return c02IntV(i), err
	case c02Dec:
		d, err := decimal.NewFromString(lit)
		return c02DecV(d), err
	case c02Flt:
		f, err := strconv.ParseFloat(lit, 64)
		return c02FltV(f), err
	}
	return c02NullV, fmt.Errorf("literal %q does not fit column kind %d", lit, t.kind)
}

// ---------------------------------------------------------------- errors

// c02SQLErr is an error a MySQL backend would return for the statement (the proxy then
// rejects the client statement with an error).
type c02SQLErr struct{ msg string }

func (e *c02SQLErr) Error() string { return e.msg }

// c02Unsupported means the rig cannot evaluate the construct: the case is skipped and counted.
type c02Unsupported struct{ msg string }

func (e *c02Unsupported) Error() string { return "c02 engine: unsupported: " + e.msg }

func c02Unsup(format string, args ...interface{}) error {
	return &c02Unsupported{msg: fmt.Sprintf(format, args...)}
}

func c02IsUnsupported(err error) bool {
	_, ok := err.(*c02Unsupported)
	return ok
}

// ---------------------------------------------------------------- store

type c02ColDef struct {
	name string
	t    c02Type
}

type c02Table struct {
	name string
	cols []c02ColDef
	rows [][]c02Val
}

type c02Store struct {
	tabs map[string]*c02Table
}

func c02NewStore() *c02Store { return &c02Store{tabs: map[string]*c02Table{}} }

func c02TabKey(slice, db, table string) string {
	return slice + "\x00" + strings.ToLower(db) + "\x00" + strings.ToLower(table)
}

func (s *c02Store) table(slice, db, table string, cols []c02ColDef) *c02Table {
	k := c02TabKey(slice, db, table)
	t, ok := s.tabs[k]
	if !ok {
		t = &c02Table{name: table, cols: cols}
		s.tabs[k] = t
	}
	return t
}

// ---------------------------------------------------------------- evaluation context

type c02EnvCol struct {
	tbl  string // lower-case alias or table name
	name string // lower-case column name
	orig string
	t    c02Type
}

type c02Env struct{ cols []c02EnvCol }

func (e *c02Env) resolve(cn *ast.ColumnName) (int, error) {
	found := -1
	for i, c := range e.cols {
		if c.name != cn.Name.L {
			continue
		}
		if cn.Table.L != "" && cn.Table.L != c.tbl {
			continue
		}
		if found >= 0 {
			return -1, &c02SQLErr{msg: fmt.Sprintf("Column '%s' is ambiguous", cn.Name.O)}
		}
		found = i
	}
	if found < 0 {
		name := cn.Name.O
		if cn.Table.O != "" {
			name = cn.Table.O + "." + name
		}
		return -1, &c02SQLErr{msg: fmt.Sprintf("Unknown column '%s'", name)}
	}
	return found, nil
}

// c02Ctx evaluates statements against the tables of one (slice, db).
type c02Ctx struct {
	store *c02Store
	slice string
	db    string
}

func (x *c02Ctx) evalFrom(rs ast.ResultSetNode) (*c02Env, [][]c02Val, error) {
	switch n := rs.(type) {
	case *ast.Join:
		if n.Right == nil {
			return x.evalFrom(n.Left)
		}
		if len(n.Using) != 0 || n.NaturalJoin {
			return nil, nil, c02Unsup("USING / NATURAL join")
		}
		le, lrows, err := x.evalFrom(n.Left)
		if err != nil {
			return nil, nil, err
		}
		re, rrows, err := x.evalFrom(n.Right)
		if err != nil {
			return nil, nil, err
		}
		env := &c02Env{cols: append(append([]c02EnvCol{}, le.cols...), re.cols...)}
		if n.Tp == ast.LeftJoin {
			// columns of the right side become nullable
			for i := len(le.cols); i < len(env.cols); i++ {
				env.cols[i].t.flag &^= c02FlagNotNull | c02FlagPriKey
			}
		}
		if n.Tp != ast.CrossJoin && n.Tp != ast.LeftJoin {
			return nil, nil, c02Unsup("join type %d", n.Tp)
		}
		var out [][]c02Val
		buf := make([]c02Val, len(env.cols))
		for _, l := range lrows {
			matched := false
			copy(buf, l)
			for _, r := range rrows {
				copy(buf[len(l):], r)
				if n.On != nil {
					v, err := x.evalRow(n.On.Expr, env, buf)
					if err != nil {
						return nil, nil, err
					}
					if !c02Truthy(v) {
						continue
					}
				}
				matched = true
				out = append(out, append([]c02Val{}, buf...))
			}
			if !matched && n.Tp == ast.LeftJoin {
				row := make([]c02Val, len(l)+len(re.cols))
				copy(row, l)
				out = append(out, row)
			}
		}
		return env, out, nil
	case *ast.TableSource:
		tn, ok := n.Source.(*ast.TableName)
		if !ok {
			return nil, nil, c02Unsup("table source %T", n.Source)
		}
		db := x.db
		if tn.Schema.L != "" {
			db = tn.Schema.L
		}
		t, ok := x.store.tabs[c02TabKey(x.slice, db, tn.Name.L)]
		if !ok {
			return nil, nil, &c02SQLErr{msg: fmt.Sprintf("Table '%s.%s' doesn't exist", db, tn.Name.O)}
		}
		alias := n.AsName.L
		if alias == "" {
			alias = tn.Name.L
		}
		env := &c02Env{}
		for _, c := range t.cols {
			env.cols = append(env.cols, c02EnvCol{tbl: alias, name: strings.ToLower(c.name), orig: c.name, t: c.t})
		}
		return env, t.rows, nil
	}
	return nil, nil, c02Unsup("from node %T", rs)
}

func c02Truthy(v c02Val) bool {
	switch v.k {
	case c02Int:
		return v.i != 0
	case c02Dec:
		return !v.d.IsZero()
	case c02Flt:
		return v.f != 0
	}
	return false
}

func c02Bool(b bool) c02Val {
	if b {
		return c02IntV(1)
	}
	return c02IntV(0)
}

// c02Cmp compares two non-NULL values. Numbers compare numerically, strings bytewise
// (binary collation, stated assumption); mixing the two is outside the generated subset.
func c02Cmp(a, b c02Val) (int, error) {
	if a.k == c02Int && b.k == c02Int {
		switch {
		case a.i < b.i:
			return -1, nil
		case a.i > b.i:
			return 1, nil
		}
		return 0, nil
	}
	if a.isNum() && b.isNum() {
		if a.k == c02Flt && b.k == c02Flt {
			switch {
			case a.f < b.f:
				return -1, nil
			case a.f > b.f:
				return 1, nil
			}
			return 0, nil
		}
		return a.dec().Cmp(b.dec()), nil
	}
	if a.k == c02Str && b.k == c02Str {
		return strings.Compare(a.s, b.s), nil
	}
	return 0, c02Unsup("comparison of kind %d with kind %d", a.k, b.k)
}

// c02CmpNull orders with NULL first (MySQL ORDER BY ASC).
func c02CmpNull(a, b c02Val) (int, error) {
	if a.k == c02Null && b.k == c02Null {
		return 0, nil
	}
	if a.k == c02Null {
		return -1, nil
	}
	if b.k == c02Null {
		return 1, nil
	}
	return c02Cmp(a, b)
}

func c02Literal(v *driver.ValueExpr) (c02Val, c02Type, error) {
	switch v.Kind() {
	case types.KindNull:
		return c02NullV, c02TNullType, nil
	case types.KindInt64:
		return c02IntV(v.GetInt64()), c02TLitInt, nil
	case types.KindUint64:
		return c02IntV(int64(v.GetUint64())), c02TLitInt, nil
	case types.KindString, types.KindBytes:
		return c02StrV(v.GetString()), c02TLitStr, nil
	case types.KindMysqlDecimal:
		d, err := decimal.NewFromString(v.GetMysqlDecimal().String())
		if err != nil {
			return c02NullV, c02TLitDec, c02Unsup("decimal literal: %v", err)
		}
		return c02DecV(d), c02TLitDec, nil
	case types.KindFloat64, types.KindFloat32:
		return c02FltV(v.GetFloat64()), c02TLitFlt, nil
	}
	return c02NullV, c02TNullType, c02Unsup("literal kind %d", v.Kind())
}

func (x *c02Ctx) evalRow(e ast.ExprNode, env *c02Env, row []c02Val) (c02Val, error) {
	switch n := e.(type) {
	case *ast.ColumnNameExpr:
		i, err := env.resolve(n.Name)
		if err != nil {
			return c02NullV, err
		}
		return row[i], nil
	case *driver.ValueExpr:
		v, _, err := c02Literal(n)
		return v, err
	case *ast.ParenthesesExpr:
		return x.evalRow(n.Expr, env, row)
	case *ast.UnaryOperationExpr:
		v, err := x.evalRow(n.V, env, row)
		if err != nil {
			return c02NullV, err
		}
		switch n.Op {
		case opcode.Not:
			if v.k == c02Null {
				return c02NullV, nil
			}
			return c02Bool(!c02Truthy(v)), nil
		case opcode.Minus:
			switch v.k {
			case c02Null:
				return c02NullV, nil
			case c02Int:
				return c02IntV(-v.i), nil
			case c02Dec:
				return c02DecV(v.d.Neg()), nil
			case c02Flt:
				return c02FltV(-v.f), nil
			}
		case opcode.Plus:
			return v, nil
		}
		return c02NullV, c02Unsup("unary op %v", n.Op)
	case *ast.BinaryOperationExpr:
		switch n.Op {
		case opcode.LogicAnd, opcode.LogicOr:
			l, err := x.evalRow(n.L, env, row)
			if err != nil {
				return c02NullV, err
			}
			r, err := x.evalRow(n.R, env, row)
			if err != nil {
				return c02NullV, err
			}
			lt, rt := c02Truthy(l), c02Truthy(r)
			ln, rn := l.k == c02Null, r.k == c02Null
			if n.Op == opcode.LogicAnd {
				if (!ln && !lt) || (!rn && !rt) {
					return c02Bool(false), nil
				}
				if ln || rn {
					return c02NullV, nil
				}
				return c02Bool(true), nil
			}
			if lt || rt {
				return c02Bool(true), nil
			}
			if ln || rn {
				return c02NullV, nil
			}
			return c02Bool(false), nil
		case opcode.EQ, opcode.NE, opcode.LT, opcode.LE, opcode.GT, opcode.GE:
			l, err := x.evalRow(n.L, env, row)
			if err != nil {
				return c02NullV, err
			}
			r, err := x.evalRow(n.R, env, row)
			if err != nil {
				return c02NullV, err
			}
			if l.k == c02Null || r.k == c02Null {
				return c02NullV, nil
			}
			c, err := c02Cmp(l, r)
			if err != nil {
				return c02NullV, err
			}
			switch n.Op {
			case opcode.EQ:
				return c02Bool(c == 0), nil
			case opcode.NE:
				return c02Bool(c != 0), nil
			case opcode.LT:
				return c02Bool(c < 0), nil
			case opcode.LE:
				return c02Bool(c <= 0), nil
			case opcode.GT:
				return c02Bool(c > 0), nil
			default:
				return c02Bool(c >= 0), nil
			}
		}
		return c02NullV, c02Unsup("binary op %v", n.Op)
	case *ast.IsNullExpr:
		v, err := x.evalRow(n.Expr, env, row)
		if err != nil {
			return c02NullV, err
		}
		return c02Bool((v.k == c02Null) != n.Not), nil
	case *ast.PatternInExpr:
		if n.Sel != nil {
			return c02NullV, c02Unsup("IN subquery")
		}
		v, err := x.evalRow(n.Expr, env, row)
		if err != nil {
			return c02NullV, err
		}
		if v.k == c02Null {
			return c02NullV, nil
		}
		sawNull, hit := false, false
		for _, le := range n.List {
			lv, err := x.evalRow(le, env, row)
			if err != nil {
				return c02NullV, err
			}
			if lv.k == c02Null {
				sawNull = true
				continue
			}
			c, err := c02Cmp(v, lv)
			if err != nil {
				return c02NullV, err
			}
			if c == 0 {
				hit = true
			}
		}
		if hit {
			return c02Bool(!n.Not), nil
		}
		if sawNull {
			return c02NullV, nil
		}
		return c02Bool(n.Not), nil
	case *ast.BetweenExpr:
		v, err := x.evalRow(n.Expr, env, row)
		if err != nil {
			return c02NullV, err
		}
		lo, err := x.evalRow(n.Left, env, row)
		if err != nil {
			return c02NullV, err
		}
		hi, err := x.evalRow(n.Right, env, row)
		if err != nil {
			return c02NullV, err
		}
		if v.k == c02Null || lo.k == c02Null || hi.k == c02Null {
			return c02NullV, nil
		}
		c1, err := c02Cmp(v, lo)
		if err != nil {
			return c02NullV, err
		}
		c2, err := c02Cmp(v, hi)
		if err != nil {
			return c02NullV, err
		}
		return c02Bool((c1 >= 0 && c2 <= 0) != n.Not), nil
	case *ast.AggregateFuncExpr:
		return c02NullV, &c02SQLErr{msg: "Invalid use of group function"}
	}
	return c02NullV, c02Unsup("expression %T", e)
}

// typeOf is the static column definition of a select expression.
func (x *c02Ctx) typeOf(e ast.ExprNode, env *c02Env) (c02Type, error) {
	switch n := e.(type) {
	case *ast.ColumnNameExpr:
		i, err := env.resolve(n.Name)
		if err != nil {
			return c02Type{}, err
		}
		return env.cols[i].t, nil
	case *driver.ValueExpr:
		_, t, err := c02Literal(n)
		return t, err
	case *ast.ParenthesesExpr:
		return x.typeOf(n.Expr, env)
	case *ast.AggregateFuncExpr:
		switch strings.ToLower(n.F) {
		case "count":
			return c02TCount, nil
		case "sum":
			at, err := x.typeOf(n.Args[0], env)
			if err != nil {
				return c02Type{}, err
			}
			switch at.kind {
			case c02Int:
				return c02Type{typ: mysql.TypeNewDecimal, flag: c02FlagBinary, dec: 0, kind: c02Dec, charset: 63, length: 33}, nil
			case c02Dec:
				return c02Type{typ: mysql.TypeNewDecimal, flag: c02FlagBinary, dec: at.dec, kind: c02Dec, charset: 63, length: 34}, nil
			case c02Flt:
				return c02Type{typ: mysql.TypeDouble, flag: c02FlagBinary, dec: 31, kind: c02Flt, charset: 63, length: 23}, nil
			}
			return c02Type{}, c02Unsup("SUM over kind %d", at.kind)
		case "max", "min":
			at, err := x.typeOf(n.Args[0], env)
			if err != nil {
				return c02Type{}, err
			}
			at.flag &^= c02FlagNotNull | c02FlagPriKey
			return at, nil
		}
		return c02Type{}, c02Unsup("aggregate %s", n.F)
	}
	return c02Type{}, c02Unsup("type of %T", e)
}

func (x *c02Ctx) evalAgg(n *ast.AggregateFuncExpr, env *c02Env, rows [][]c02Val) (c02Val, error) {
	if len(n.Args) != 1 {
		return c02NullV, c02Unsup("aggregate with %d args", len(n.Args))
	}
	f := strings.ToLower(n.F)
	var vals []c02Val
	seen := map[string]bool{}
	for _, r := range rows {
		v, err := x.evalRow(n.Args[0], env, r)
		if err != nil {
			return c02NullV, err
		}
		if v.k == c02Null {
			continue
		}
		if n.Distinct {
			k := v.canon()
			if seen[k] {
				continue
			}
			seen[k] = true
		}
		vals = append(vals, v)
	}
	switch f {
	case "count":
		return c02IntV(int64(len(vals))), nil
	case "sum":
		if len(vals) == 0 {
			return c02NullV, nil
		}
		t, err := x.typeOf(n, env)
		if err != nil {
			return c02NullV, err
		}
		if t.kind == c02Flt {
			s := 0.0
			for _, v := range vals {
				s += v.f
			}
			return c02FltV(s), nil
		}
		s := decimal.Zero
		for _, v := range vals {
			s = s.Add(v.dec())
		}
		return c02DecV(s), nil
	case "max", "min":
		if len(vals) == 0 {
			return c02NullV, nil
		}
		best := vals[0]
		for _, v := range vals[1:] {
			c, err := c02Cmp(v, best)
			if err != nil {
				return c02NullV, err
			}
			if (f == "max" && c > 0) || (f == "min" && c < 0) {
				best = v
			}
		}
		return best, nil
	}
	return c02NullV, c02Unsup("aggregate %s", n.F)
}

// evalGroup evaluates a select / order expression over one group of rows.
func (x *c02Ctx) evalGroup(e ast.ExprNode, env *c02Env, rows [][]c02Val) (c02Val, error) {
	switch n := e.(type) {
	case *ast.AggregateFuncExpr:
		return x.evalAgg(n, env, rows)
	case *ast.ParenthesesExpr:
		return x.evalGroup(n.Expr, env, rows)
	case *driver.ValueExpr:
		v, _, err := c02Literal(n)
		return v, err
	case *ast.ColumnNameExpr:
		i, err := env.resolve(n.Name)
		if err != nil {
			return c02NullV, err
		}
		if len(rows) == 0 {
			return c02NullV, nil
		}
		return rows[0][i], nil
	}
	return c02NullV, c02Unsup("grouped expression %T", e)
}

func c02HasAgg(e ast.ExprNode) bool {
	switch n := e.(type) {
	case *ast.AggregateFuncExpr:
		return true
	case *ast.ParenthesesExpr:
		return c02HasAgg(n.Expr)
	}
	return false
}

// c02RS is an evaluated result set. keys are the ORDER BY key tuples of rows (nil without ORDER BY).
type c02RS struct {
	names    []string
	types    []c02Type
	rows     [][]c02Val
	keys     [][]c02Val
	desc     []bool
	hasLimit bool
	offset   int64
	count    int64
}

type c02Field struct {
	expr  ast.ExprNode
	alias string // lower-case AsName
	name  string
	t     c02Type
	col   int // index in env when the field is a plain column from '*', else -1
}

func c02FieldName(f *ast.SelectField) string {
	if f.AsName.O != "" {
		return f.AsName.O
	}
	if c, ok := f.Expr.(*ast.ColumnNameExpr); ok {
		return c.Name.Name.O
	}
	s, err := parser.NodeToStringWithoutQuote(f.Expr)
	if err != nil {
		return "?"
	}
	return s
}

func c02LimitOf(l *ast.Limit) (bool, int64, int64, error) {
	if l == nil {
		return false, 0, 0, nil
	}
	cv, ok := l.Count.(*driver.ValueExpr)
	if !ok {
		return false, 0, 0, c02Unsup("limit count %T", l.Count)
	}
	var off int64
	if l.Offset != nil {
		ov, ok := l.Offset.(*driver.ValueExpr)
		if !ok {
			return false, 0, 0, c02Unsup("limit offset %T", l.Offset)
		}
		off = ov.GetInt64()
	}
	return true, off, cv.GetInt64(), nil
}

func (rs *c02RS) sortRows() error {
	if rs.keys == nil {
		return nil
	}
	idx := make([]int, len(rs.rows))
	for i := range idx {
		idx[i] = i
	}
	var serr error
	sort.SliceStable(idx, func(a, b int) bool {
		ka, kb := rs.keys[idx[a]], rs.keys[idx[b]]
		for j := range ka {
			c, err := c02CmpNull(ka[j], kb[j])
			if err != nil {
				serr = err
				return false
			}
			if rs.desc[j] {
				c = -c
			}
			if c != 0 {
				return c < 0
			}
		}
		return false
	})
	if serr != nil {
		return serr
	}
	rows := make([][]c02Val, len(idx))
	keys := make([][]c02Val, len(idx))
	for i, j := range idx {
		rows[i], keys[i] = rs.rows[j], rs.keys[j]
	}
	rs.rows, rs.keys = rows, keys
	return nil
}

func (rs *c02RS) applyLimit() {
	if !rs.hasLimit {
		return
	}
	n := int64(len(rs.rows))
	lo := rs.offset
	if lo > n {
		lo = n
	}
	hi := lo + rs.count
	if hi > n {
		hi = n
	}
	rs.rows = rs.rows[lo:hi]
	if rs.keys != nil {
		rs.keys = rs.keys[lo:hi]
	}
}

// evalSelect evaluates one SELECT. With applyLimit=false the rows are sorted but the LIMIT
// window is only reported (the oracle needs the un-limited answer).
func (x *c02Ctx) evalSelect(s *ast.SelectStmt, applyLimit bool) (*c02RS, error) {
	if s.Having != nil {
		return nil, c02Unsup("HAVING")
	}
	if s.From == nil || s.From.TableRefs == nil {
		return nil, c02Unsup("SELECT without FROM")
	}
	env, rows, err := x.evalFrom(s.From.TableRefs)
	if err != nil {
		return nil, err
	}
	if s.Where != nil {
		var kept [][]c02Val
		for _, r := range rows {
			v, err := x.evalRow(s.Where, env, r)
			if err != nil {
				return nil, err
			}
			if c02Truthy(v) {
				kept = append(kept, r)
			}
		}
		rows = kept
	}

	// select list
	var fields []c02Field
	for _, f := range s.Fields.Fields {
		if f.WildCard != nil {
			matched := false
			for i, c := range env.cols {
				if f.WildCard.Table.L != "" && f.WildCard.Table.L != c.tbl {
					continue
				}
				matched = true
				fields = append(fields, c02Field{name: c.orig, t: c.t, col: i})
			}
			if !matched {
				return nil, &c02SQLErr{msg: fmt.Sprintf("Unknown table '%s'", f.WildCard.Table.O)}
			}
			continue
		}
		t, err := x.typeOf(f.Expr, env)
		if err != nil {
			return nil, err
		}
		fields = append(fields, c02Field{expr: f.Expr, alias: f.AsName.L, name: c02FieldName(f), t: t, col: -1})
	}

	agg := s.GroupBy != nil
	for _, f := range fields {
		if f.expr != nil && c02HasAgg(f.expr) {
			agg = true
		}
	}
	if s.OrderBy != nil {
		for _, it := range s.OrderBy.Items {
			if c02HasAgg(it.Expr) {
				agg = true
			}
		}
	}

	rs := &c02RS{}
	for _, f := range fields {
		rs.names = append(rs.names, f.name)
		rs.types = append(rs.types, f.t)
	}
	if s.OrderBy != nil {
		for _, it := range s.OrderBy.Items {
			rs.desc = append(rs.desc, it.Desc)
		}
	}

	// resolution of an ORDER BY item to a select-list position (alias or position), -1 if none
	orderPos := func(e ast.ExprNode) (int, error) {
		switch n := e.(type) {
		case *ast.PositionExpr:
			if n.N < 1 || n.N > len(fields) {
				return -1, &c02SQLErr{msg: fmt.Sprintf("Unknown column '%d' in 'order clause'", n.N)}
			}
			return n.N - 1, nil
		case *ast.ColumnNameExpr:
			if n.Name.Table.L == "" {
				for i, f := range fields {
					if f.alias != "" && f.alias == n.Name.Name.L {
						return i, nil
					}
				}
			}
		}
		return -1, nil
	}

	if !agg {
		for _, r := range rows {
			out := make([]c02Val, len(fields))
			for i, f := range fields {
				if f.expr == nil {
					out[i] = r[f.col]
					continue
				}
				v, err := x.evalRow(f.expr, env, r)
				if err != nil {
					return nil, err
				}
				out[i] = v
			}
			rs.rows = append(rs.rows, out)
			if s.OrderBy != nil {
				key := make([]c02Val, len(s.OrderBy.Items))
				for j, it := range s.OrderBy.Items {
					p, err := orderPos(it.Expr)
					if err != nil {
						return nil, err
					}
					if p >= 0 {
						key[j] = out[p]
						continue
					}
					v, err := x.evalRow(it.Expr, env, r)
					if err != nil {
						return nil, err
					}
					key[j] = v
				}
				rs.keys = append(rs.keys, key)
			}
		}
	} else {
		// grouping
		type grp struct{ rows [][]c02Val }
		var groups []*grp
		if s.GroupBy == nil {
			groups = []*grp{{rows: rows}}
		} else {
			var gexprs []ast.ExprNode
			for _, it := range s.GroupBy.Items {
				ge := it.Expr
				switch n := ge.(type) {
				case *ast.PositionExpr:
					if n.N < 1 || n.N > len(fields) || fields[n.N-1].expr == nil {
						return nil, c02Unsup("GROUP BY position %d", n.N)
					}
					ge = fields[n.N-1].expr
				case *ast.ColumnNameExpr:
					if _, err := env.resolve(n.Name); err != nil {
						found := false
						if n.Name.Table.L == "" {
							for _, f := range fields {
								if f.alias != "" && f.alias == n.Name.Name.L && f.expr != nil {
									ge, found = f.expr, true
									break
								}
							}
						}
						if !found {
							return nil, err
						}
					}
				}
				if c02HasAgg(ge) {
					return nil, &c02SQLErr{msg: "Can't group on aggregate"}
				}
				gexprs = append(gexprs, ge)
			}
			index := map[string]*grp{}
			for _, r := range rows {
				key := make([]c02Val, len(gexprs))
				for j, ge := range gexprs {
					v, err := x.evalRow(ge, env, r)
					if err != nil {
						return nil, err
					}
					key[j] = v
				}
				k := c02RowCanon(key)
				g, ok := index[k]
				if !ok {
					g = &grp{}
					index[k] = g
					groups = append(groups, g)
				}
				g.rows = append(g.rows, r)
			}
		}
		for _, g := range groups {
			out := make([]c02Val, len(fields))
			for i, f := range fields {
				if f.expr == nil {
					if len(g.rows) > 0 {
						out[i] = g.rows[0][f.col]
					}
					continue
				}
				v, err := x.evalGroup(f.expr, env, g.rows)
				if err != nil {
					return nil, err
				}
				out[i] = v
			}
			rs.rows = append(rs.rows, out)
			if s.OrderBy != nil {
				key := make([]c02Val, len(s.OrderBy.Items))
				for j, it := range s.OrderBy.Items {
					p, err := orderPos(it.Expr)
					if err != nil {
						return nil, err
					}
					if p >= 0 {
						key[j] = out[p]
						continue
					}
					v, err := x.evalGroup(it.Expr, env, g.rows)
					if err != nil {
						return nil, err
					}
					key[j] = v
				}
				rs.keys = append(rs.keys, key)
			}
		}
	}

	if s.Distinct {
		seen := map[string]bool{}
		var rows2, keys2 [][]c02Val
		for i, r := range rs.rows {
			k := c02RowCanon(r)
			if seen[k] {
				continue
			}
			seen[k] = true
			rows2 = append(rows2, r)
			if rs.keys != nil {
				keys2 = append(keys2, rs.keys[i])
			}
		}
		rs.rows = rows2
		if rs.keys != nil {
			rs.keys = keys2
		}
	}
	if err := rs.sortRows(); err != nil {
		return nil, err
	}
	rs.hasLimit, rs.offset, rs.count, err = c02LimitOf(s.Limit)
	if err != nil {
		return nil, err
	}
	if applyLimit {
		rs.applyLimit()
	}
	return rs, nil
}

func (x *c02Ctx) evalUnion(u *ast.UnionStmt, applyLimit bool) (*c02RS, error) {
	var out *c02RS
	for i, s := range u.SelectList.Selects {
		r, err := x.evalSelect(s, true)
		if err != nil {
			return nil, err
		}
		if i == 0 {
			out = &c02RS{names: r.names, types: r.types, rows: r.rows}
			continue
		}
		if len(r.names) != len(out.names) {
			return nil, &c02SQLErr{msg: "The used SELECT statements have a different number of columns"}
		}
		out.rows = append(out.rows, r.rows...)
		if s.IsAfterUnionDistinct {
			seen := map[string]bool{}
			var rows2 [][]c02Val
			for _, row := range out.rows {
				k := c02RowCanon(row)
				if seen[k] {
					continue
				}
				seen[k] = true
				rows2 = append(rows2, row)
			}
			out.rows = rows2
		}
	}
	if u.OrderBy != nil {
		pos := make([]int, len(u.OrderBy.Items))
		for j, it := range u.OrderBy.Items {
			out.desc = append(out.desc, it.Desc)
			pos[j] = -1
			switch n := it.Expr.(type) {
			case *ast.PositionExpr:
				if n.N >= 1 && n.N <= len(out.names) {
					pos[j] = n.N - 1
				}
			case *ast.ColumnNameExpr:
				if n.Name.Table.L == "" {
					for i, nm := range out.names {
						if strings.ToLower(nm) == n.Name.Name.L {
							pos[j] = i
							break
						}
					}
				}
			}
			if pos[j] < 0 {
				return nil, &c02SQLErr{msg: "Unknown column in 'order clause' of UNION"}
			}
		}
		out.keys = make([][]c02Val, len(out.rows))
		for i, r := range out.rows {
			k := make([]c02Val, len(pos))
			for j, p := range pos {
				k[j] = r[p]
			}
			out.keys[i] = k
		}
		if err := out.sortRows(); err != nil {
			return nil, err
		}
	}
	var err error
	out.hasLimit, out.offset, out.count, err = c02LimitOf(u.Limit)
	if err != nil {
		return nil, err
	}
	if applyLimit {
		out.applyLimit()
	}
	return out, nil
}

func (x *c02Ctx) evalStmt(stmt ast.StmtNode, applyLimit bool) (*c02RS, error) {
	switch s := stmt.(type) {
	case *ast.SelectStmt:
		return x.evalSelect(s, applyLimit)
	case *ast.UnionStmt:
		return x.evalUnion(s, applyLimit)
	}
	return nil, c02Unsup("statement %T", stmt)
}

// c02ToResult builds the *mysql.Result a backend connection would hand to the plan:
// column definition packets are dumped and parsed back, rows are encoded in the text
// protocol and decoded with the real RowData.ParseText.
func c02ToResult(rs *c02RS) (*mysql.Result, error) {
	res := &mysql.Result{Status: 2}
	res.Resultset = &mysql.Resultset{FieldNames: map[string]int{}}
	res.Fields = make([]*mysql.Field, len(rs.names))
	for i, nm := range rs.names {
		t := rs.types[i]
		f := &mysql.Field{Name: []byte(nm), OrgName: []byte(nm), Charset: t.charset, ColumnLength: t.length,
			Type: t.typ, Flag: t.flag, Decimal: t.dec}
		pf, err := mysql.FieldData(f.Dump()).Parse()
		if err != nil {
			return nil, fmt.Errorf("c02: column definition does not round-trip: %v", err)
		}
		res.Fields[i] = pf
		res.FieldNames[string(pf.Name)] = i
	}
	res.RowDatas = make([]mysql.RowData, 0, len(rs.rows))
	for _, r := range rs.rows {
		var rd []byte
		for i, v := range r {
			if v.k == c02Null {
				rd = append(rd, 0xfb)
				continue
			}
			rd = mysql.AppendLenEncStringBytes(rd, []byte(v.text(rs.types[i])))
		}
		res.RowDatas = append(res.RowDatas, rd)
	}
	res.Values = make([][]interface{}, len(res.RowDatas))
	for i := range res.RowDatas {
		vals, err := res.RowDatas[i].ParseText(res.Fields)
		if err != nil {
			return nil, fmt.Errorf("c02: text row does not parse: %v", err)
		}
		res.Values[i] = vals
	}
	return res, nil
}

// ---------------------------------------------------------------- plan.Executor

// c02Exec is the plan.Executor backed by the store. Results are returned in the order of
// the real SessionExecutor: slices sorted by name, databases sorted by name, statements in order.
type c02Exec struct {
	store       *c02Store
	parser      *parser.Parser
	stmts       int // per-shard statements executed
	calls       int // ExecuteSQLs calls
	unsupported error
	sent        []string
	cache       map[string]ast.StmtNode // parsed statements (the evaluator never modifies a tree)
}

func (e *c02Exec) run(slice, db, sql string) (*mysql.Result, error) {
	e.stmts++
	if len(e.sent) < 64 {
		e.sent = append(e.sent, slice+"/"+db+": "+sql)
	}
	stmt, ok := e.cache[sql]
	if !ok {
		var err error
		stmt, err = e.parser.ParseOneStmt(sql, "", "")
		if err != nil {
			return nil, &c02SQLErr{msg: "You have an error in your SQL syntax: " + err.Error()}
		}
		if e.cache != nil {
			e.cache[sql] = stmt
		}
	}
	ctx := &c02Ctx{store: e.store, slice: slice, db: db}
	rs, err := ctx.evalStmt(stmt, true)
	if err != nil {
		if c02IsUnsupported(err) && e.unsupported == nil {
			e.unsupported = err
		}
		return nil, err
	}
	return c02ToResult(rs)
}

func (e *c02Exec) ExecuteSQL(ctx *util.RequestContext, slice, db, sql string) (*mysql.Result, error) {
	return e.run(slice, db, sql)
}

func (e *c02Exec) ExecuteSQLs(ctx *util.RequestContext, sqls map[string]map[string][]string) ([]*mysql.Result, error) {
	e.calls++
	if len(sqls) == 0 {
		return nil, fmt.Errorf("no sql to execute")
	}
	slices := make([]string, 0, len(sqls))
	for s := range sqls {
		slices = append(slices, s)
	}
	sort.Strings(slices)
	var out []*mysql.Result
	for _, s := range slices {
		dbs := make([]string, 0, len(sqls[s]))
		for d := range sqls[s] {
			dbs = append(dbs, d)
		}
		sort.Strings(dbs)
		for _, d := range dbs {
			for _, q := range sqls[s][d] {
				r, err := e.run(s, d, q)
				if err != nil {
					return nil, err
				}
				out = append(out, r)
			}
		}
	}
	return out, nil
}

func (e *c02Exec) SetLastInsertID(uint64)  {}
func (e *c02Exec) GetLastInsertID() uint64 { return 0 }
func (e *c02Exec) HandleSet(*util.RequestContext, string, *ast.SetStmt) (*mysql.Result, error) {
	return nil, fmt.Errorf("c02: SET not supported")
}
