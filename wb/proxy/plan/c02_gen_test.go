package plan

// C02 workload: sharding configurations, data sets placed by the rule's own placement
// function, and the query feature space (atoms -> SQL).

import (
	"fmt"
	"strconv"
	"strings"

	"github.com/XiaoMi/Gaea/models"
	"github.com/XiaoMi/Gaea/proxy/router"
	kit "github.com/XiaoMi/Gaea/verifkit"
)

// ---------------------------------------------------------------- configurations

// c02CfgSpec is the replayable description of a sharding layout: the rule type and the
// number of physical tables on each slice (1-4 slices, 1-4 tables per slice).
type c02CfgSpec struct {
	Rule     string `json:"rule"`
	PerSlice []int  `json:"per_slice"`
}

func (s c02CfgSpec) String() string {
	p := make([]string, len(s.PerSlice))
	for i, n := range s.PerSlice {
		p[i] = strconv.Itoa(n)
	}
	return s.Rule + "[" + strings.Join(p, ",") + "]"
}

type c02Shard struct {
	index int // table index of the rule
	slice string
	db    string
	table string // physical name of logical table t
}

type c02Config struct {
	spec    c02CfgSpec
	family  string // "", RULE_RANGE, RULE_DATE, RULE_MYCAT
	rt      *router.Router
	rule    router.Rule
	db      string
	shards  []c02Shard
	keyType c02Type
	keys    [][]string // per shard ordinal: key literals (SQL text) that the rule places there
	phyDBs  map[string]string
}

var c02RuleTypes = []string{"hash", "mod", "range", "date_year", "date_month", "date_day",
	"mycat_mod", "mycat_long", "mycat_murmur", "mycat_string"}

func c02Family(rule string) string {
	switch {
	case rule == "range":
		return "RULE_RANGE"
	case strings.HasPrefix(rule, "date_"):
		return "RULE_DATE"
	case strings.HasPrefix(rule, "mycat_"):
		return "RULE_MYCAT"
	}
	return ""
}

const c02KeysPerShard = 12

func c02NewConfig(spec c02CfgSpec) (*c02Config, error) {
	cfg := &c02Config{spec: spec, family: c02Family(spec.Rule), db: "db_c02"}
	ns := &models.Namespace{Name: "c02", DefaultSlice: "slice-0"}
	var sliceNames []string
	total := 0
	for i, n := range spec.PerSlice {
		name := fmt.Sprintf("slice-%d", i)
		sliceNames = append(sliceNames, name)
		ns.Slices = append(ns.Slices, &models.Slice{Name: name})
		total += n
	}
	sh := &models.Shard{DB: cfg.db, Table: "t", Type: spec.Rule, Key: "id", Slices: sliceNames}
	gl := &models.Shard{DB: cfg.db, Table: "g", Type: "global", Slices: sliceNames, Locations: spec.PerSlice}
	cfg.keyType = c02TIntKey
	var candidates []string
	intCandidates := func(n int) {
		for i := 1; i <= n; i++ {
			candidates = append(candidates, strconv.Itoa(i))
		}
	}
	switch spec.Rule {
	case "hash", "mod":
		sh.Locations = spec.PerSlice
		intCandidates(400)
	case "range":
		sh.Locations = spec.PerSlice
		sh.TableRowLimit = 100
		for i := 0; i < total; i++ {
			for j := 0; j < c02KeysPerShard+4; j++ {
				// the first and the last key of every range are included
				k := i*100 + j*6
				if j == 1 {
					k = i*100 + 99
				}
				candidates = append(candidates, strconv.Itoa(k))
			}
		}
	case "date_year", "date_month", "date_day":
		cfg.keyType = c02TDateKey
		cur := 0
		for _, n := range spec.PerSlice {
			var lo, hi string
			switch spec.Rule {
			case "date_year":
				lo, hi = strconv.Itoa(2014+cur), strconv.Itoa(2014+cur+n-1)
			case "date_month":
				lo, hi = c02Month(cur), c02Month(cur+n-1)
			default:
				lo, hi = c02Day(cur), c02Day(cur+n-1)
			}
			if lo == hi {
				sh.DateRange = append(sh.DateRange, lo)
			} else {
				sh.DateRange = append(sh.DateRange, lo+"-"+hi)
			}
			cur += n
		}
		for i := 0; i < total; i++ {
			for j := 0; j < c02KeysPerShard+4; j++ {
				var d string
				switch spec.Rule {
				case "date_year":
					d = fmt.Sprintf("%d-%02d-%02d", 2014+i, 1+j%12, 1+(j*5)%28)
				case "date_month":
					m := c02Month(i)
					d = fmt.Sprintf("%s-%s-%02d", m[:4], m[4:], 1+j)
				default:
					dd := c02Day(i)
					d = fmt.Sprintf("%s-%s-%s", dd[:4], dd[4:6], dd[6:])
				}
				tm := fmt.Sprintf("%02d:%02d:%02d", j, (j*7)%60, (j*13)%60)
				if j == 1 {
					// the second key of every table is the last instant of its period
					// (the first one, j == 0, is the first instant)
					switch spec.Rule {
					case "date_year":
						d = fmt.Sprintf("%d-12-31", 2014+i)
					case "date_month":
						m := c02Month(i)
						last := map[string]string{"01": "31", "02": "28", "03": "31", "04": "30", "05": "31", "06": "30", "07": "31", "08": "31", "09": "30", "10": "31", "11": "30", "12": "31"}[m[4:]]
						d = fmt.Sprintf("%s-%s-%s", m[:4], m[4:], last)
					}
					tm = "23:59:59"
				}
				candidates = append(candidates, fmt.Sprintf("'%s %s'", d, tm))
			}
		}
	case "mycat_mod", "mycat_long", "mycat_murmur", "mycat_string":
		sh.Locations = spec.PerSlice
		cfg.db = "db_c02m"
		sh.DB, gl.DB = cfg.db, cfg.db
		for i := 0; i < total; i++ {
			sh.Databases = append(sh.Databases, fmt.Sprintf("db_c02m_%d", i))
		}
		gl.Databases = sh.Databases
		switch spec.Rule {
		case "mycat_long", "mycat_string":
			if 1024%total == 0 {
				sh.PartitionCount, sh.PartitionLength = strconv.Itoa(total), strconv.Itoa(1024/total)
			} else {
				l := 1024 / total
				sh.PartitionCount = fmt.Sprintf("%d,1", total-1)
				sh.PartitionLength = fmt.Sprintf("%d,%d", l, 1024-l*(total-1))
			}
			if spec.Rule == "mycat_string" {
				sh.HashSlice = "0:3"
				cfg.keyType = c02TStrKey
				for i := 0; i < 600; i++ {
					candidates = append(candidates, fmt.Sprintf("'%c%c%c-%d'", 'a'+i%26, 'A'+(i/7)%26, '0'+(i/3)%10, i))
				}
			} else {
				for i := 0; i < 400; i++ {
					candidates = append(candidates, strconv.Itoa(1+i*37))
				}
			}
		case "mycat_murmur":
			sh.Seed, sh.VirtualBucketTimes = "0", "160"
			intCandidates(600)
		default:
			intCandidates(400)
		}
	default:
		return nil, fmt.Errorf("c02: unknown rule %q", spec.Rule)
	}
	ns.ShardRules = []*models.Shard{sh,
		{DB: cfg.db, Table: "tl", Type: "linked", Key: "id", ParentTable: "t"}, gl}
	rt, err := router.NewRouter(ns)
	if err != nil {
		return nil, fmt.Errorf("c02: router for %v: %v", spec, err)
	}
	cfg.rt = rt
	rule, ok := rt.GetShardRule(cfg.db, "t")
	if !ok {
		return nil, fmt.Errorf("c02: rule of t not found")
	}
	cfg.rule = rule
	cfg.phyDBs = map[string]string{cfg.db: cfg.db}
	ord := map[int]int{}
	for o, idx := range rule.GetSubTableIndexes() {
		ord[idx] = o
		dbName, _ := rule.GetDatabaseNameByTableIndex(idx)
		name := fmt.Sprintf("t_%04d", idx)
		if router.IsMycatShardingRule(rule.GetType()) {
			name = "t"
		}
		cfg.shards = append(cfg.shards, c02Shard{index: idx, slice: rule.GetSlice(rule.GetSliceIndexFromTableIndex(idx)), db: dbName, table: name})
	}
	if len(cfg.shards) != total {
		return nil, fmt.Errorf("c02: %v has %d shards, expected %d", spec, len(cfg.shards), total)
	}
	cfg.keys = make([][]string, total)
	for _, lit := range candidates {
		var key interface{}
		if lit[0] == '\'' {
			key = lit[1 : len(lit)-1]
		} else {
			n, _ := strconv.ParseInt(lit, 10, 64)
			key = n
		}
		idx, err := rule.FindTableIndex(key)
		if err != nil {
			continue
		}
		o, ok := ord[idx]
		if !ok || len(cfg.keys[o]) >= c02KeysPerShard {
			continue
		}
		cfg.keys[o] = append(cfg.keys[o], lit)
	}
	for o := range cfg.keys {
		if len(cfg.keys[o]) < c02KeysPerShard {
			return nil, fmt.Errorf("c02: %v: only %d keys found for shard ordinal %d", spec, len(cfg.keys[o]), o)
		}
	}
	return cfg, nil
}

// c02LitLess compares two key literals of a layout by value.
func c02LitLess(a, b string, t c02Type) bool {
	va, err1 := c02ParseLit(a, t)
	vb, err2 := c02ParseLit(b, t)
	if err1 != nil || err2 != nil {
		return a < b
	}
	c, _ := c02Cmp(va, vb)
	return c < 0
}

func c02Month(i int) string { // i-th month starting 2014-05
	m := 4 + i
	return fmt.Sprintf("%04d%02d", 2014+m/12, 1+m%12)
}

func c02Day(i int) string { // i-th day starting 2014-09-01 (September has 30 days)
	d := i
	if d < 30 {
		return fmt.Sprintf("201409%02d", 1+d)
	}
	return fmt.Sprintf("201410%02d", 1+d-30)
}

// ---------------------------------------------------------------- data

// A data set lists rows by target shard ordinal (taken modulo the number of shards);
// the key of each row is the next unused key the rule places on that shard. Values are
// SQL literal texts. Columns of t: id (key), a INT, b VARCHAR (holds NULL and 'NULL'),
// c DECIMAL(10,2), d BIGINT, e VARCHAR and h VARCHAR (hold '+' in first/last position),
// f DOUBLE. tl(id, p INT, q VARCHAR) is linked to t on id; g(gid, h VARCHAR, w INT) is a
// global table.
type c02TRow struct {
	Shard int       `json:"s"`
	V     [7]string `json:"v"` // a b c d e f h
}

type c02LRow struct {
	Of int       `json:"of"` // index of the parent row in T
	V  [2]string `json:"v"`  // p q
}

type c02GRow struct {
	Of int       `json:"of"` // index of a row of T whose key is used as gid; -1: a key not in T
	V  [2]string `json:"v"`  // h w
}

type c02DataSpec struct {
	Name string    `json:"name"`
	T    []c02TRow `json:"t"`
	L    []c02LRow `json:"l"`
	G    []c02GRow `json:"g"`
}

func c02TR(s int, a, b, c, d, e, f, h string) c02TRow {
	return c02TRow{Shard: s, V: [7]string{a, b, c, d, e, f, h}}
}

func c02AddLinked(d *c02DataSpec) {
	for i := range d.T {
		switch i % 4 {
		case 0:
			d.L = append(d.L, c02LRow{Of: i, V: [2]string{strconv.Itoa(i % 3), "'q" + strconv.Itoa(i%2) + "'"}})
			d.L = append(d.L, c02LRow{Of: i, V: [2]string{"NULL", "'q+'"}})
		case 1:
			d.L = append(d.L, c02LRow{Of: i, V: [2]string{strconv.Itoa(i % 3), "NULL"}})
		}
		if i%3 != 2 {
			d.G = append(d.G, c02GRow{Of: i, V: [2]string{"'h" + strconv.Itoa(i%2) + "'", strconv.Itoa(i % 4)}})
		}
	}
	d.G = append(d.G, c02GRow{Of: -1, V: [2]string{"'none'", "9"}})
}

// The fixed data sets; the verdict of a query shape is decided on them. Each is adversarial
// by construction for one family of merge defects:
//   D1  groups that rank first on one shard but not globally; every value also lives on
//       another shard (DISTINCT aggregates); NULL next to 'NULL' in b; (e,h) = ('a+','b')
//       next to ('a','+b'); the first rows of shards 0,1,2 are equal.
//   D2  two shards hold all rows, the others are empty; value order is opposite to shard
//       order; ties in every ORDER BY key; offsets cut through a shard's contribution.
//   D3  shards 0 and 1 hold the same multiset of value rows (equal partial aggregates),
//       shard 2 a part of it, shard 3 nothing.
//   D4  degenerate: b is NULL or 'NULL' only (NULL only on the first shard), every aggregate of a
//       string is 'NULL' or NULL, rows with d < 0 carry only NULLs; value order is opposite
//       to shard order.
//   D5  two shards with eight groups each in different storage order: a per-shard LIMIT of
//       3 or 5 cuts every group on one of the shards except two, so whatever window the
//       proxy takes of its merged groups holds a partially aggregated row.
//   F1, F2  fixed pseudo-random draws from the pools of the random workload.
func c02FixedData() []c02DataSpec {
	d1 := c02DataSpec{Name: "D1", T: []c02TRow{
		c02TR(0, "1", "'x'", "1.50", "-1", "'a+'", "0.25", "'b'"),
		c02TR(0, "1", "NULL", "2.25", "-2", "'a'", "0.5", "'+b'"),
		c02TR(0, "1", "'NULL'", "1.50", "3", "'a+'", "1", "'b'"),
		c02TR(0, "2", "NULL", "NULL", "-1", "'a'", "NULL", "'b'"),
		c02TR(0, "3", "'x'", "0.10", "5", "NULL", "2", "NULL"),
		c02TR(1, "1", "'x'", "1.50", "-1", "'a+'", "0.25", "'b'"),
		c02TR(1, "2", "'NULL'", "1.50", "-1", "'a+'", "0.25", "'b'"),
		c02TR(1, "2", "'y'", "2.25", "4", "'a'", "0.75", "'+b'"),
		c02TR(1, "3", "'NULL'", "3.00", "-7", "'a'", "1.5", "'b'"),
		c02TR(1, "NULL", "''", "1.50", "0", "''", "0.25", "''"),
		c02TR(1, "4", "'y'", "9.99", "8", "'z'", "4", "'z'"),
		c02TR(1, "4", "'y'", "0.01", "8", "'z'", "4", "'z'"),
		c02TR(1, "4", "'x'", "5.00", "-2", "'z'", "0.5", "NULL"),
		c02TR(2, "1", "'x'", "1.50", "-1", "'a+'", "0.25", "'b'"),
		c02TR(2, "2", "NULL", "1.50", "-1", "'a'", "0.25", "'+b'"),
		c02TR(2, "3", "NULL", "2.25", "4", "'a+'", "0.5", "'b'"),
		c02TR(2, "NULL", "NULL", "NULL", "NULL", "NULL", "NULL", "NULL"),
		c02TR(2, "1", "'y'", "0.10", "-2", "'a'", "2", "'+b'"),
		c02TR(3, "3", "'y'", "1.50", "3", "'a'", "1", "'+b'"),
		c02TR(3, "2", "'x'", "7.77", "5", "'a+'", "0.25", "'b'"),
		c02TR(3, "5", "'NULL'", "-3.75", "-1", "NULL", "-0.25", "'b'"),
		c02TR(3, "2", "NULL", "1.50", "-7", "'a'", "0.75", "'b'"),
	}}
	c02AddLinked(&d1)

	d2 := c02DataSpec{Name: "D2", T: []c02TRow{
		c02TR(0, "5", "'y'", "2.50", "7", "'b'", "1.5", "'+b'"),
		c02TR(0, "5", "'y'", "2.50", "7", "'b'", "1.5", "'+b'"),
		c02TR(0, "5", "'x'", "0.25", "2", "'a+'", "0.5", "'b'"),
		c02TR(0, "4", "'x'", "0.25", "2", "'a'", "0.5", "'+b'"),
		c02TR(0, "4", "'NULL'", "-1.00", "-3", "''", "-0.25", "''"),
		c02TR(0, "1", "NULL", "NULL", "NULL", "NULL", "NULL", "NULL"),
		c02TR(0, "1", "'NULL'", "0.00", "0", "NULL", "0", "'b'"),
		c02TR(1, "3", "'x'", "0.25", "-3", "'a'", "0.5", "'+b'"),
		c02TR(1, "3", "''", "2.50", "1", "'a+'", "1.5", "'b'"),
		c02TR(1, "3", "''", "9.99", "7", "'a'", "3", "'b'"),
		c02TR(1, "4", "'y'", "2.50", "2", "'b'", "0.5", "'+b'"),
		c02TR(1, "4", "NULL", "4.00", "-3", "''", "-0.25", "''"),
		c02TR(1, "1", "'NULL'", "NULL", "7", "'a'", "3", "NULL"),
		c02TR(1, "NULL", "'x'", "0.25", "NULL", "'a'", "NULL", "'+b'"),
		c02TR(1, "5", "'x'", "-1.00", "1", "'a+'", "1.5", "'b'"),
	}}
	c02AddLinked(&d2)

	d3 := c02DataSpec{Name: "D3"}
	mirror := [][7]string{
		{"1", "'x'", "1.50", "-1", "'a'", "0.5", "'b'"},
		{"1", "'x'", "1.50", "-1", "'a'", "0.5", "'b'"},
		{"1", "'y'", "2.25", "2", "'a+'", "0.25", "'b'"},
		{"2", "'x'", "2.25", "-1", "'a'", "0.25", "'+b'"},
		{"2", "NULL", "NULL", "3", "NULL", "NULL", "NULL"},
		{"NULL", "'NULL'", "0.10", "NULL", "''", "1", "''"},
		{"3", "''", "-3.75", "0", "'b'", "-0.25", "'a'"},
	}
	for sh := 0; sh < 3; sh++ {
		for i, v := range mirror {
			if sh == 2 && i%2 == 1 {
				continue
			}
			d3.T = append(d3.T, c02TRow{Shard: sh, V: v})
			if i%3 == 0 {
				d3.L = append(d3.L, c02LRow{Of: len(d3.T) - 1, V: [2]string{"1", "'q'"}})
			}
			if i%2 == 0 {
				d3.G = append(d3.G, c02GRow{Of: len(d3.T) - 1, V: [2]string{"'h'", "1"}})
			}
		}
	}

	d4 := c02DataSpec{Name: "D4", T: []c02TRow{
		c02TR(0, "3", "NULL", "3.00", "3", "'a+'", "3", "'b'"),
		c02TR(0, "3", "NULL", "3.00", "3", "'a+'", "3", "'b'"),
		c02TR(0, "2", "NULL", "2.00", "2", "'a'", "2", "'+b'"),
		c02TR(0, "NULL", "NULL", "NULL", "-1", "NULL", "NULL", "NULL"),
		c02TR(1, "2", "'NULL'", "2.00", "2", "'a'", "2", "'+b'"),
		c02TR(1, "2", "NULL", "2.00", "2", "'a+'", "2", "'b'"),
		c02TR(1, "NULL", "NULL", "NULL", "-2", "NULL", "NULL", "NULL"),
		c02TR(2, "1", "'NULL'", "1.00", "1", "'a+'", "1", "'b'"),
		c02TR(2, "1", "NULL", "1.00", "1", "'a'", "1", "'+b'"),
		c02TR(2, "1", "'NULL'", "1.00", "1", "'a'", "1", "'+b'"),
		c02TR(3, "0", "NULL", "0.00", "0", "'a'", "0", "'+b'"),
		c02TR(3, "NULL", "NULL", "NULL", "-1", "NULL", "NULL", "NULL"),
	}}
	c02AddLinked(&d4)

	d5 := c02DataSpec{Name: "D5"}
	for i, a := range []int{1, 2, 3, 4, 5, 6, 7, 8, 1, 3, 5, 7} {
		d5.T = append(d5.T, c02TR(0, strconv.Itoa(a), "'x'", strconv.Itoa(a)+".50", strconv.Itoa(a%3-1), "'a'", strconv.Itoa(a), "'b'"))
		_ = i
	}
	for _, a := range []int{4, 5, 6, 7, 8, 1, 2, 3, 8, 8, 2} {
		d5.T = append(d5.T, c02TR(1, strconv.Itoa(a), "'y'", strconv.Itoa(9-a)+".25", strconv.Itoa(a%3-1), "'a'", strconv.Itoa(9-a), "'b'"))
	}
	c02AddLinked(&d5)

	f1 := c02RandomData(kit.NewRand(0xC02F1), "F1")
	f2 := c02RandomData(kit.NewRand(0xC02F2), "F2")
	return []c02DataSpec{d1, d2, d3, d4, d5, f1, f2}
}

var (
	c02PoolA = []string{"NULL", "1", "1", "2", "2", "3", "4", "5"}
	c02PoolB = []string{"NULL", "NULL", "'NULL'", "'NULL'", "'x'", "'x'", "'y'", "''"}
	c02PoolC = []string{"NULL", "0.10", "1.50", "1.50", "2.25", "-3.75", "9.99", "0.00", "2.50"}
	c02PoolD = []string{"NULL", "-7", "-2", "-1", "-1", "0", "3", "4", "5", "8"}
	c02PoolE = []string{"NULL", "'a+'", "'a+'", "'a'", "'a'", "''", "'z'"}
	c02PoolF = []string{"NULL", "0.25", "0.5", "0.75", "1", "1.5", "2", "4", "-0.25"}
	c02PoolH = []string{"NULL", "'b'", "'b'", "'+b'", "'+b'", "''", "'z'"}
)

func c02RandomData(r *kit.Rand, name string) c02DataSpec {
	d := c02DataSpec{Name: name}
	n := r.Range(0, 24)
	hot := r.Intn(4) // one shard gets more rows
	for i := 0; i < n; i++ {
		s := r.Intn(4)
		if r.Chance(1, 3) {
			s = hot
		}
		row := c02TR(s, r.Pick(c02PoolA), r.Pick(c02PoolB), r.Pick(c02PoolC), r.Pick(c02PoolD), r.Pick(c02PoolE), r.Pick(c02PoolF), r.Pick(c02PoolH))
		if i > 0 && r.Chance(1, 5) { // duplicate of an earlier row, possibly on another shard
			row = d.T[r.Intn(i)]
			row.Shard = r.Intn(4)
		}
		d.T = append(d.T, row)
		for k := r.Intn(3); k > 0 && r.Chance(1, 2); k-- {
			d.L = append(d.L, c02LRow{Of: i, V: [2]string{r.Pick([]string{"NULL", "0", "1", "2"}), r.Pick([]string{"NULL", "'q'", "'q+'", "'+q'"})}})
		}
		if r.Chance(1, 2) {
			d.G = append(d.G, c02GRow{Of: i, V: [2]string{r.Pick([]string{"NULL", "'h'", "'h0'", "'h+'"}), r.Pick([]string{"NULL", "0", "1", "2"})}})
		}
	}
	if r.Bool() {
		d.G = append(d.G, c02GRow{Of: -1, V: [2]string{"'none'", "9"}})
	}
	return d
}

// c02World is one (configuration, data) pair loaded into a store: the physical tables on
// their (slice, db) plus the reference database ("", logical db) holding the union.
type c02World struct {
	cfg   *c02Config
	data  c02DataSpec
	store *c02Store
	rowsT int
	used  int // shards that hold at least one row of t
}

const c02RefSlice = "\x00ref"

func c02Load(cfg *c02Config, data c02DataSpec) (*c02World, error) {
	w := &c02World{cfg: cfg, data: data, store: c02NewStore()}
	tCols := []c02ColDef{{"id", cfg.keyType}, {"a", c02TInt}, {"b", c02TStr}, {"c", c02TDec2}, {"d", c02TBig}, {"e", c02TStr}, {"f", c02TDbl}, {"h", c02TStr}}
	lKey := cfg.keyType
	lKey.flag &^= c02FlagPriKey
	// tl and g also have a column named a like t (a join can select two columns of one
	// name); its value is 7 minus the a of the row of t the key belongs to, so the two order
	// in opposite directions
	lCols := []c02ColDef{{"id", lKey}, {"p", c02TInt}, {"q", c02TStr}, {"a", c02TInt}}
	gCols := []c02ColDef{{"gid", lKey}, {"h", c02TStr}, {"w", c02TInt}, {"a", c02TInt}}
	mirrorA := func(of int) c02Val {
		if of < 0 || of >= len(data.T) {
			return c02NullV
		}
		v, err := c02ParseLit(data.T[of].V[0], c02TInt)
		if err != nil || v.k == c02Null {
			return c02NullV
		}
		return c02IntV(7 - v.i)
	}
	refT := w.store.table(c02RefSlice, cfg.db, "t", tCols)
	refL := w.store.table(c02RefSlice, cfg.db, "tl", lCols)
	refG := w.store.table(c02RefSlice, cfg.db, "g", gCols)
	mycat := router.IsMycatShardingRule(cfg.rule.GetType())
	type phys struct{ t, l, g *c02Table }
	ph := make([]phys, len(cfg.shards))
	for o, sh := range cfg.shards {
		lname := fmt.Sprintf("tl_%04d", sh.index)
		if mycat {
			lname = "tl"
		}
		ph[o] = phys{t: w.store.table(sh.slice, sh.db, sh.table, tCols), l: w.store.table(sh.slice, sh.db, lname, lCols),
			g: w.store.table(sh.slice, sh.db, "g", gCols)}
	}
	next := make([]int, len(cfg.shards))
	keyOf := make([]c02Val, len(data.T))
	ordOf := make([]int, len(data.T))
	usedShard := map[int]bool{}
	for i, r := range data.T {
		o := r.Shard % len(cfg.shards)
		if next[o] >= len(cfg.keys[o]) {
			continue // more rows than keys on this shard: the row is dropped everywhere
		}
		lit := cfg.keys[o][next[o]]
		next[o]++
		kv, err := c02ParseLit(lit, cfg.keyType)
		if err != nil {
			return nil, err
		}
		keyOf[i], ordOf[i] = kv, o
		row := []c02Val{kv}
		for j, l := range r.V {
			v, err := c02ParseLit(l, tCols[j+1].t)
			if err != nil {
				return nil, err
			}
			row = append(row, v)
		}
		ph[o].t.rows = append(ph[o].t.rows, row)
		refT.rows = append(refT.rows, row)
		usedShard[o] = true
		w.rowsT++
	}
	w.used = len(usedShard)
	for _, r := range data.L {
		if r.Of < 0 || r.Of >= len(keyOf) || keyOf[r.Of].k == c02Null {
			continue
		}
		row := []c02Val{keyOf[r.Of]}
		for j, l := range r.V {
			v, err := c02ParseLit(l, lCols[j+1].t)
			if err != nil {
				return nil, err
			}
			row = append(row, v)
		}
		row = append(row, mirrorA(r.Of))
		ph[ordOf[r.Of]].l.rows = append(ph[ordOf[r.Of]].l.rows, row)
		refL.rows = append(refL.rows, row)
	}
	for _, r := range data.G {
		var kv c02Val
		if r.Of >= 0 && r.Of < len(keyOf) && keyOf[r.Of].k != c02Null {
			kv = keyOf[r.Of]
		} else {
			// a key that no row of t uses: the last candidate of shard 0
			var err error
			kv, err = c02ParseLit(cfg.keys[0][c02KeysPerShard-1], cfg.keyType)
			if err != nil {
				return nil, err
			}
		}
		row := []c02Val{kv}
		for j, l := range r.V {
			v, err := c02ParseLit(l, gCols[j+1].t)
			if err != nil {
				return nil, err
			}
			row = append(row, v)
		}
		row = append(row, mirrorA(r.Of))
		refG.rows = append(refG.rows, row)
		done := map[*c02Table]bool{}
		for o := range ph {
			if !done[ph[o].g] { // several shards may share one (slice, db)
				done[ph[o].g] = true
				ph[o].g.rows = append(ph[o].g.rows, row)
			}
		}
	}
	return w, nil
}

// ---------------------------------------------------------------- feature space

// Atoms of the query feature space. A shape is a set of atoms; c02BuildSQL is total: every
// set yields one statement or is invalid (no statement). Atoms of one exclusive slot
// shadow each other in the listed order; modifiers without their base are no-ops, so such
// sets are never 1-minimal.
var c02Atoms = []string{
	// sharding rule family of the layout (default: hash/mod)
	"RULE_RANGE", "RULE_DATE", "RULE_MYCAT",
	// FROM
	"JOIN_LINKED", "LEFT_JOIN_LINKED", "JOIN_GLOBAL", "TBL_ALIAS", "QUALIFIED",
	// plain projection
	"PROJ_STAR", "PROJ_STR", "PROJ_STR_PAIR", "PROJ_NUMS", "PROJ_SAME_NAME", "COL_ALIAS",
	// WHERE
	"W_NONKEY", "W_MIXED", "W_EMPTY", "W_KEY_EQ", "W_KEY_IN", "W_KEY_RANGE",
	// aggregates
	"COUNT_STAR", "COUNT_COL", "COUNT_DISTINCT", "SUM", "SUM_DISTINCT", "MAX", "MIN",
	"ARG_DEC", "ARG_STR", "ARG_FLT", "ARG_NEG", "AGG_ALIAS",
	// GROUP BY (a GROUP BY without aggregate atoms selects COUNT(*) as well, unless NO_AGG)
	"GROUP_BY", "GROUP_STR", "GROUP_PAIR", "GROUP_HIDDEN", "NO_AGG",
	// ORDER BY
	"ORDER_BY_COL", "ORDER_BY_HIDDEN", "ORDER_BY_ALIAS", "ORDER_BY_POS", "ORDER_BY_AGG",
	"ORDER_DESC", "ORDER_TWO_KEYS", "ORDER_STR", "ORDER_DEC", "ORDER_FLT", "ORDER_KEY",
	// LIMIT, DISTINCT, UNION
	"LIMIT_N", "LIMIT_OFFSET", "DISTINCT", "UNION_ALL", "UNION_DISTINCT",
}

var c02AtomIndex = func() map[string]int {
	m := map[string]int{}
	for i, a := range c02Atoms {
		m[a] = i
	}
	return m
}()

// exclusive slots: at most one atom of a slot is generated / enumerated
var c02Slots = [][]string{
	{"RULE_RANGE", "RULE_DATE", "RULE_MYCAT"},
	{"JOIN_LINKED", "LEFT_JOIN_LINKED", "JOIN_GLOBAL"},
	{"PROJ_STAR", "PROJ_STR", "PROJ_STR_PAIR", "PROJ_NUMS", "PROJ_SAME_NAME"},
	{"W_KEY_EQ", "W_KEY_IN", "W_KEY_RANGE"},
	{"ARG_DEC", "ARG_STR", "ARG_FLT", "ARG_NEG"},
	{"ORDER_BY_COL", "ORDER_BY_HIDDEN", "ORDER_BY_ALIAS", "ORDER_BY_POS", "ORDER_BY_AGG"},
	{"ORDER_STR", "ORDER_DEC", "ORDER_FLT", "ORDER_KEY"},
	{"LIMIT_N", "LIMIT_OFFSET"},
	{"UNION_ALL", "UNION_DISTINCT"},
}

var c02SlotOf = func() map[string]int {
	m := map[string]int{}
	for i, s := range c02Slots {
		for _, a := range s {
			m[a] = i + 1
		}
	}
	return m
}()

// c02Shape is a set of atoms as a bit mask (bit i = c02Atoms[i]).
type c02Shape uint64

func c02ShapeOf(atoms []string) c02Shape {
	var s c02Shape
	for _, a := range atoms {
		s |= 1 << uint(c02AtomIndex[a])
	}
	return s
}

func (s c02Shape) has(a string) bool { return s&(1<<uint(c02AtomIndex[a])) != 0 }

func (s c02Shape) with(a string) c02Shape { return s | 1<<uint(c02AtomIndex[a]) }

func (s c02Shape) atoms() []string {
	var out []string
	for i, a := range c02Atoms {
		if s&(1<<uint(i)) != 0 {
			out = append(out, a)
		}
	}
	return out
}

func (s c02Shape) size() int {
	n := 0
	for x := uint64(s); x != 0; x &= x - 1 {
		n++
	}
	return n
}

func (s c02Shape) key() string { return strings.Join(s.atoms(), ",") }

func (s c02Shape) without(a string) c02Shape { return s &^ (1 << uint(c02AtomIndex[a])) }

func (s c02Shape) first(names ...string) string {
	for _, n := range names {
		if s.has(n) {
			return n
		}
	}
	return ""
}

type c02Item struct {
	expr  string // SQL text of the expression
	alias string
	col   string // bare column name when the item is a plain column of t
}

func (it c02Item) sql() string {
	if it.alias != "" {
		return it.expr + " AS " + it.alias
	}
	return it.expr
}

// outName is the name the column has in the result (what a UNION's ORDER BY may use).
func (it c02Item) outName() string {
	if it.alias != "" {
		return it.alias
	}
	return it.col
}

// c02BuildSQL maps a shape to its statement for a layout (only the key literals depend on
// the layout). ok=false: the combination is not a valid statement of the subset.
func c02BuildSQL(s c02Shape, cfg *c02Config) (string, bool) {
	join := s.first("JOIN_LINKED", "LEFT_JOIN_LINKED", "JOIN_GLOBAL")
	tq, jq := "", "" // qualifiers of t and of the joined table
	if s.has("TBL_ALIAS") {
		tq, jq = "x.", "y."
	} else if join != "" || s.has("QUALIFIED") {
		tq = "t."
		if join == "JOIN_GLOBAL" {
			jq = "g."
		} else {
			jq = "tl."
		}
	}
	from := "t"
	if s.has("TBL_ALIAS") {
		from = "t AS x"
	}
	switch join {
	case "JOIN_LINKED", "LEFT_JOIN_LINKED":
		kw := " JOIN "
		if join == "LEFT_JOIN_LINKED" {
			kw = " LEFT JOIN "
		}
		if s.has("TBL_ALIAS") {
			from += kw + "tl AS y ON x.id = y.id"
		} else {
			from += kw + "tl ON t.id = tl.id"
		}
	case "JOIN_GLOBAL":
		if s.has("TBL_ALIAS") {
			from += " JOIN g AS y ON x.id = y.gid"
		} else {
			from += " JOIN g ON t.id = g.gid"
		}
	}
	col := func(c string) c02Item { return c02Item{expr: tq + c, col: c} }

	// WHERE
	var conds []string
	if s.has("W_NONKEY") {
		conds = append(conds, tq+"a > 1")
	}
	if s.has("W_MIXED") {
		conds = append(conds, "("+tq+"b IS NULL OR "+tq+"d < 0 OR NOT ("+tq+"a = 2))")
	}
	if s.has("W_EMPTY") {
		conds = append(conds, tq+"a > 1000")
	}
	switch s.first("W_KEY_EQ", "W_KEY_IN", "W_KEY_RANGE") {
	case "W_KEY_RANGE":
		// from a key inside the first table to a key inside the second one (range and
		// calendar rules prune the other tables); the full grid of key predicates is c02_keys
		hi := cfg.keys[0][3]
		if len(cfg.keys) > 1 {
			hi = cfg.keys[1][2]
		}
		lo := cfg.keys[0][2]
		if c02LitLess(hi, lo, cfg.keyType) {
			lo, hi = hi, lo
		}
		conds = append(conds, tq+"id BETWEEN "+lo+" AND "+hi)
	case "W_KEY_EQ":
		conds = append(conds, tq+"id = "+cfg.keys[0][0])
	case "W_KEY_IN":
		// the first key of the first three shards (fewer shards: further keys of shard 0)
		k1, k2 := cfg.keys[0][1], cfg.keys[0][2]
		if len(cfg.keys) > 1 {
			k1 = cfg.keys[1][0]
		}
		if len(cfg.keys) > 2 {
			k2 = cfg.keys[2][0]
		}
		conds = append(conds, tq+"id IN ("+cfg.keys[0][0]+", "+k1+", "+k2+")")
	}

	// aggregates
	arg, numArg := "a", "a"
	switch s.first("ARG_DEC", "ARG_STR", "ARG_FLT", "ARG_NEG") {
	case "ARG_DEC":
		arg, numArg = "c", "c"
	case "ARG_STR":
		arg = "b"
	case "ARG_FLT":
		arg, numArg = "f", "f"
	case "ARG_NEG":
		arg, numArg = "d", "d"
	}
	var aggs []c02Item
	addAgg := func(e string) {
		it := c02Item{expr: e}
		if s.has("AGG_ALIAS") {
			it.alias = "g" + strconv.Itoa(len(aggs)+1)
		}
		aggs = append(aggs, it)
	}
	if s.has("COUNT_STAR") {
		addAgg("COUNT(*)")
	}
	if s.has("COUNT_COL") {
		addAgg("COUNT(" + tq + arg + ")")
	}
	if s.has("COUNT_DISTINCT") {
		addAgg("COUNT(DISTINCT " + tq + arg + ")")
	}
	if s.has("SUM") {
		addAgg("SUM(" + tq + numArg + ")")
	}
	if s.has("SUM_DISTINCT") {
		addAgg("SUM(DISTINCT " + tq + numArg + ")")
	}
	if s.has("MAX") {
		addAgg("MAX(" + tq + arg + ")")
	}
	if s.has("MIN") {
		addAgg("MIN(" + tq + arg + ")")
	}

	// GROUP BY
	var gcols []string
	if s.has("GROUP_BY") && len(aggs) == 0 && !s.has("NO_AGG") {
		addAgg("COUNT(*)")
	}
	if s.has("GROUP_BY") {
		switch {
		case s.has("GROUP_STR") && s.has("GROUP_PAIR"):
			gcols = []string{"e", "h"}
		case s.has("GROUP_STR"):
			gcols = []string{"b"}
		case s.has("GROUP_PAIR"):
			gcols = []string{"a", "d"}
		default:
			gcols = []string{"a"}
		}
	}
	grouped := len(gcols) > 0 || len(aggs) > 0
	union := s.first("UNION_ALL", "UNION_DISTINCT")
	okind := s.first("ORDER_BY_COL", "ORDER_BY_HIDDEN", "ORDER_BY_ALIAS", "ORDER_BY_POS", "ORDER_BY_AGG")

	var items []c02Item
	star := false
	var orderKeys []string // ORDER BY expressions (first key gets DESC)
	var extraGroup []string

	if grouped {
		if !s.has("GROUP_HIDDEN") {
			for _, g := range gcols {
				items = append(items, col(g))
			}
		}
		if s.has("PROJ_SAME_NAME") && join != "" && !s.has("GROUP_HIDDEN") && len(gcols) > 0 && gcols[0] == "a" {
			// group on a of t and on a of the joined table: two selected columns of one name
			items = append(items, c02Item{expr: jq + "a", col: "a"})
			extraGroup = append(extraGroup, jq+"a")
		}
		if s.has("COL_ALIAS") && len(items) > 0 {
			items[0].alias = "x_" + items[0].col
		}
		first := len(items) // index of the first aggregate
		items = append(items, aggs...)
		if len(items) == 0 {
			return "", false
		}
		switch okind {
		case "ORDER_BY_COL":
			if len(gcols) == 0 {
				return "", false
			}
			orderKeys = append(orderKeys, tq+gcols[0])
		case "ORDER_BY_HIDDEN":
			return "", false
		case "ORDER_BY_ALIAS":
			if len(aggs) > 0 {
				if items[first].alias == "" {
					items[first].alias = "g1"
				}
				orderKeys = append(orderKeys, items[first].alias)
			} else {
				if items[0].alias == "" {
					items[0].alias = "x_" + items[0].col
				}
				orderKeys = append(orderKeys, items[0].alias)
			}
		case "ORDER_BY_POS":
			if len(aggs) > 0 {
				orderKeys = append(orderKeys, strconv.Itoa(first+1))
			} else {
				orderKeys = append(orderKeys, "1")
			}
		case "ORDER_BY_AGG":
			if len(aggs) > 0 {
				orderKeys = append(orderKeys, aggs[0].expr)
			} else {
				orderKeys = append(orderKeys, "COUNT(*)")
			}
		}
		if okind != "" && s.has("ORDER_TWO_KEYS") && len(gcols) > 0 {
			k2 := tq + gcols[len(gcols)-1]
			if k2 != orderKeys[0] {
				orderKeys = append(orderKeys, k2)
			}
		}
	} else {
		switch s.first("PROJ_STAR", "PROJ_STR", "PROJ_STR_PAIR", "PROJ_NUMS", "PROJ_SAME_NAME") {
		case "PROJ_SAME_NAME":
			// two table-qualified columns of one name: a of t and a of the joined table
			if join == "" {
				return "", false
			}
			items = []c02Item{col("a"), {expr: jq + "a", col: "a"}, col("d")}
		case "PROJ_STAR":
			star = true
		case "PROJ_STR":
			items = []c02Item{col("a"), col("b")}
		case "PROJ_STR_PAIR":
			items = []c02Item{col("e"), col("h")}
		case "PROJ_NUMS":
			items = []c02Item{col("c"), col("d"), col("f")}
		default:
			// the default projection holds no strings (key encoding defects need PROJ_STR*)
			if s.has("DISTINCT") {
				items = []c02Item{col("a"), col("d")}
			} else {
				items = []c02Item{col("id"), col("a"), col("d")}
			}
		}
		if !star {
			switch join {
			case "JOIN_LINKED", "LEFT_JOIN_LINKED":
				items = append(items, c02Item{expr: jq + "p", col: "p"})
			case "JOIN_GLOBAL":
				items = append(items, c02Item{expr: jq + "h", col: "h"})
			}
		}
		target := "a"
		switch s.first("ORDER_STR", "ORDER_DEC", "ORDER_FLT", "ORDER_KEY") {
		case "ORDER_STR":
			target = "b"
		case "ORDER_DEC":
			target = "c"
		case "ORDER_FLT":
			target = "f"
		case "ORDER_KEY":
			target = "id"
		}
		find := func(c string) int {
			for i, it := range items {
				if it.col == c && strings.HasPrefix(it.expr, tq) && it.expr == tq+c {
					return i
				}
			}
			return -1
		}
		if s.has("COL_ALIAS") && !star {
			for i := range items {
				if items[i].col != "id" {
					items[i].alias = "x_" + items[i].col
					break
				}
			}
		}
		switch okind {
		case "ORDER_BY_COL", "ORDER_BY_ALIAS", "ORDER_BY_POS":
			pos := -1
			if star {
				if okind == "ORDER_BY_ALIAS" {
					return "", false
				}
				pos = map[string]int{"id": 0, "a": 1, "b": 2, "c": 3, "d": 4, "e": 5, "f": 6, "h": 7}[target]
			} else {
				pos = find(target)
				if pos < 0 {
					items = append(items, col(target))
					pos = len(items) - 1
				}
			}
			switch okind {
			case "ORDER_BY_COL":
				orderKeys = append(orderKeys, tq+target)
			case "ORDER_BY_ALIAS":
				if items[pos].alias == "" {
					items[pos].alias = "x_" + target
				}
				orderKeys = append(orderKeys, items[pos].alias)
			default:
				orderKeys = append(orderKeys, strconv.Itoa(pos+1))
			}
		case "ORDER_BY_HIDDEN":
			if star || s.has("DISTINCT") || union != "" {
				return "", false
			}
			if i := find(target); i >= 0 {
				items = append(items[:i:i], items[i+1:]...)
			}
			if len(items) == 0 {
				items = []c02Item{col("id")}
				if target == "id" {
					items = []c02Item{col("b")}
				}
			}
			orderKeys = append(orderKeys, tq+target)
		case "ORDER_BY_AGG":
			return "", false
		}
		if okind != "" && s.has("ORDER_TWO_KEYS") {
			k2 := "id"
			if s.has("DISTINCT") || union != "" {
				// the second key must be a selected column
				k2 = ""
				for _, it := range items {
					if it.col != "" && it.alias == "" && tq+it.col != orderKeys[0] && it.expr == tq+it.col {
						k2 = it.col
						break
					}
				}
				if star {
					k2 = "id"
				}
			}
			if k2 != "" && tq+k2 != orderKeys[0] {
				orderKeys = append(orderKeys, tq+k2)
			}
		}
	}

	var sel strings.Builder
	sel.WriteString("SELECT ")
	if s.has("DISTINCT") {
		sel.WriteString("DISTINCT ")
	}
	if star {
		sel.WriteString("*")
	} else {
		for i, it := range items {
			if i > 0 {
				sel.WriteString(", ")
			}
			sel.WriteString(it.sql())
		}
	}
	sel.WriteString(" FROM " + from)
	tail := ""
	if len(gcols) > 0 {
		g := make([]string, len(gcols))
		for i, c := range gcols {
			g[i] = tq + c
		}
		g = append(g, extraGroup...)
		tail += " GROUP BY " + strings.Join(g, ", ")
	}
	where := func(extra string) string {
		c := conds
		if extra != "" {
			c = append(append([]string{}, conds...), extra)
		}
		if len(c) == 0 {
			return ""
		}
		return " WHERE " + strings.Join(c, " AND ")
	}
	order := ""
	if len(orderKeys) > 0 {
		if union != "" {
			// the outer ORDER BY of a UNION names result columns or positions
			for i, k := range orderKeys {
				if _, err := strconv.Atoi(k); err == nil {
					continue
				}
				name := ""
				for _, it := range items {
					if it.alias == k || (it.alias == "" && it.col != "" && tq+it.col == k) {
						name = it.outName()
					}
				}
				if star && strings.HasPrefix(k, tq) {
					name = strings.TrimPrefix(k, tq)
				}
				if name == "" {
					return "", false
				}
				orderKeys[i] = name
			}
		}
		order = " ORDER BY " + orderKeys[0]
		if s.has("ORDER_DESC") {
			order += " DESC"
		}
		for _, k := range orderKeys[1:] {
			order += ", " + k
		}
	}
	limit := ""
	switch s.first("LIMIT_N", "LIMIT_OFFSET") {
	case "LIMIT_N":
		limit = " LIMIT 3"
	case "LIMIT_OFFSET":
		limit = " LIMIT 2, 3"
	}
	if union == "" {
		return sel.String() + where("") + tail + order + limit, true
	}
	kw := " UNION "
	if union == "UNION_ALL" {
		kw = " UNION ALL "
	}
	return sel.String() + where("") + tail + kw + sel.String() + where(tq+"d < 0") + tail + order + limit, true
}

// c02ValidSet: at most one atom per exclusive slot.
func c02ValidSet(atoms []string) bool {
	seen := map[int]bool{}
	for _, a := range atoms {
		if sl := c02SlotOf[a]; sl != 0 {
			if seen[sl] {
				return false
			}
			seen[sl] = true
		}
	}
	return true
}

// c02RandomShape draws a valid atom set without the RULE_* atoms (the layout adds its family).
func c02RandomShape(r *kit.Rand) c02Shape {
	for {
		n := r.Range(1, 8)
		var s c02Shape
		for tries := 0; s.size() < n && tries < 40; tries++ {
			a := c02Atoms[r.Intn(len(c02Atoms))]
			if strings.HasPrefix(a, "RULE_") || s.has(a) {
				continue
			}
			if c02ValidSet(s.with(a).atoms()) {
				s = s.with(a)
			}
		}
		if s != 0 {
			return s
		}
	}
}

