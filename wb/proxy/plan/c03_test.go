package plan

// C03 — every inserted row is stored once, where lookups will find it.
//
// Monitor: INSERT / REPLACE statements (VALUES lists of 1..6 rows and the SET form) whose
// sharding values mix literals, quoted numbers, signed numbers, arithmetic, function calls,
// NULL and out-of-range keys are planned by the real plan.BuildPlan and executed through
// Plan.ExecuteIn with a recording executor (which, like SessionExecutor.ExecuteSQLs, refuses
// an empty statement map). The written rows are decoded from the rewritten statements.
// Oracle: accepted => every row routable, each row written exactly once, unchanged, into the
// table a point lookup (real planner, `SELECT .. WHERE key = <stored value>`) is routed to;
// a statement with an unroutable row must be rejected as a whole.

import (
	"fmt"
	"sort"
	"strconv"
	"strings"
	"sync/atomic"
	"testing"

	"github.com/XiaoMi/Gaea/parser"
	"github.com/XiaoMi/Gaea/parser/ast"
	"github.com/XiaoMi/Gaea/parser/format"
	driver "github.com/XiaoMi/Gaea/parser/tidb-types/parser_driver"
	kit "github.com/XiaoMi/Gaea/verifkit"
)

type c03Row struct {
	Kind string `json:"kind"`           // lit | qint | qzero | neg | arith | func | null | oor | seqnull | seqnext
	Key  string `json:"key"`            // literal text of the sharding value
	PKey string `json:"pkey,omitempty"` // child-table inserts: literal for the column named like the parent's sharding column
}

type c03Case struct {
	Cfg      string   `json:"cfg"`
	Seq      string   `json:"seq,omitempty"`      // "" | key (sequence on the sharding column) | seq (sequence on column seq)
	SeqOmit  bool     `json:"seq_omit,omitempty"` // the sequence column is left out of the column list
	Form     string   `json:"form"`               // values | set
	Replace  bool     `json:"replace,omitempty"`
	OnDup    bool     `json:"ondup,omitempty"`
	OnDupKey string   `json:"ondup_key,omitempty"` // ON DUPLICATE KEY UPDATE assigns the sharding column, spelled bare | upper | bq | tbl | db
	OnDupLit string   `json:"ondup_lit,omitempty"` // the value it assigns
	Style    string   `json:"style"`               // bare | db | colq
	KeyPos   int      `json:"key_pos"`
	Child    bool     `json:"child,omitempty"` // insert into the linked child table (own sharding column)
	Deco     string   `json:"deco,omitempty"`  // U upper, M mixed, Q back-quoted, C comment before the name, I INTO omitted
	PCol     bool     `json:"pcol,omitempty"`  // child insert also sets the column named like the parent's sharding column
	Rows     []c03Row `json:"rows"`
	SQL      string   `json:"sql,omitempty"`
}

func c03Routable(kind, seq string) bool {
	switch kind {
	case "lit", "qint", "qzero", "big", "qbig", "qneg":
		// literals: if the statement is accepted the row must be findable by a point query
		return true
	case "seqnull", "seqnext", "null":
		// with a global sequence configured on the sharding column, NULL / nextval() / an omitted
		// column get a generated value, which is then routed like a literal
		return seq == "key"
	}
	return false
}

func (cs *c03Case) seqCol(c *plCfg) string {
	switch cs.Seq {
	case "key":
		return c.Key
	case "seq":
		return "seq"
	}
	return ""
}

// tblKey returns the logical table and sharding column the statement addresses.
func (cs *c03Case) tblKey(c *plCfg) (string, string) {
	if cs.Child {
		return c.Child, c.ChildKey
	}
	return c.Table, c.Key
}

func c03SQL(c *plCfg, cs *c03Case) string {
	verb := "INSERT INTO "
	if cs.Replace {
		verb = "REPLACE INTO "
	}
	ltbl, lkey := cs.tblKey(c)
	st := "bare"
	if cs.Style == "db" {
		st = "db"
	}
	sp := plSpellX(c, st, strings.Replace(cs.Deco, "I", "", -1), ltbl, lkey, "a")
	tbl := sp.Ref
	if strings.Contains(cs.Deco, "I") {
		verb = strings.Replace(verb, " INTO ", " ", 1)
	}
	q := ""
	if cs.Style == "colq" {
		q = sp.Name + "."
	}
	// column order: payload columns with the key at KeyPos
	names := []string{"v", "other"}
	keyOmitted := cs.Seq == "key" && cs.SeqOmit
	if !keyOmitted {
		pos := cs.KeyPos
		if pos > len(names) {
			pos = len(names)
		}
		names = append(names[:pos], append([]string{lkey}, names[pos:]...)...)
	}
	if cs.Child && cs.PCol {
		// the parent's sharding column name is an ordinary column of the child; it comes first or
		// last so that it sits on either side of the child's own key
		if cs.KeyPos%2 == 0 {
			names = append([]string{c.Key}, names...)
		} else {
			names = append(names, c.Key)
		}
	}
	if cs.Seq == "seq" && !cs.SeqOmit {
		names = append(names, "seq")
	}
	val := func(i int, name string) string {
		switch name {
		case "v":
			return fmt.Sprintf("'r%d'", i)
		case "other":
			return strconv.Itoa(i)
		case "seq":
			if i%2 == 0 {
				return "nextval()"
			}
			return "NULL"
		}
		if cs.Child && cs.PCol && name == c.Key {
			return cs.Rows[i].PKey
		}
		return cs.Rows[i].Key
	}
	var sb strings.Builder
	sb.WriteString(verb + tbl + " ")
	if cs.Form == "set" {
		sb.WriteString("SET ")
		for j, n := range names {
			if j > 0 {
				sb.WriteString(", ")
			}
			sb.WriteString(q + n + " = " + val(0, n))
		}
	} else {
		sb.WriteString("(")
		for j, n := range names {
			if j > 0 {
				sb.WriteString(", ")
			}
			sb.WriteString(q + n)
		}
		sb.WriteString(") VALUES ")
		for i := range cs.Rows {
			if i > 0 {
				sb.WriteString(", ")
			}
			sb.WriteString("(")
			for j, n := range names {
				if j > 0 {
					sb.WriteString(", ")
				}
				sb.WriteString(val(i, n))
			}
			sb.WriteString(")")
		}
	}
	if (cs.OnDup || cs.OnDupKey != "") && !cs.Replace {
		var as []string
		if cs.OnDup {
			as = append(as, "v = 'dup'")
		}
		if cs.OnDupKey != "" {
			k := lkey
			switch cs.OnDupKey {
			case "upper":
				k = strings.ToUpper(lkey)
			case "bq":
				k = "`" + lkey + "`"
			case "tbl":
				k = sp.Name + "." + lkey
			case "db":
				k = c.DB + "." + sp.Name + "." + lkey
			}
			as = append(as, k+" = "+cs.OnDupLit)
		}
		sb.WriteString(" ON DUPLICATE KEY UPDATE " + strings.Join(as, ", "))
	}
	return sb.String()
}

func c03Restore(n ast.Node) string {
	var sb strings.Builder
	if err := n.Restore(format.NewRestoreCtx(format.EscapeRestoreFlags, &sb)); err != nil {
		return "<restore error: " + err.Error() + ">"
	}
	return sb.String()
}

// c03Canon renders a literal text the way Restore prints it.
func c03Canon(lit string) string {
	st, err := parser.ParseSQL("SELECT " + lit)
	if err != nil {
		return lit
	}
	return c03Restore(st.(*ast.SelectStmt).Fields.Fields[0].Expr)
}

type c03Written struct {
	Addr plAddr
	Idx  int
	Cols map[string]ast.ExprNode
	Stmt *ast.InsertStmt
}

// c03Decode turns the sent statements into written rows.
func c03Decode(c *plCfg, tbl string, sent []plSent) ([]c03Written, string) {
	var out []c03Written
	for _, s := range sent {
		stmt, err := parser.ParseSQL(s.SQL)
		if err != nil {
			return nil, "sent text does not parse: " + s.SQL
		}
		ins, ok := stmt.(*ast.InsertStmt)
		if !ok {
			return nil, "sent statement is not an INSERT: " + s.SQL
		}
		idxs, unknown, derr := plDecodeTargets(c, tbl, []plSent{s})
		if derr != nil || len(unknown) > 0 || len(idxs) != 1 {
			return nil, fmt.Sprintf("statement sent to %s/%s addresses no configured table: %s", s.Slice, s.DB, s.SQL)
		}
		db := s.DB
		if refs, _ := plRefsOf(ins.Table); len(refs) == 1 && refs[0].Schema != "" {
			db = refs[0].Schema
		}
		addr := plAddr{Slice: s.Slice, DB: db, Table: c.PhysName(tbl, idxs[0])}
		if len(ins.Setlist) > 0 {
			w := c03Written{Addr: addr, Idx: idxs[0], Cols: map[string]ast.ExprNode{}, Stmt: ins}
			for _, a := range ins.Setlist {
				w.Cols[a.Column.Name.L] = a.Expr
			}
			out = append(out, w)
			continue
		}
		for _, l := range ins.Lists {
			if len(l) != len(ins.Columns) {
				return nil, "column count differs from value count in sent text: " + s.SQL
			}
			w := c03Written{Addr: addr, Idx: idxs[0], Cols: map[string]ast.ExprNode{}, Stmt: ins}
			for j, cn := range ins.Columns {
				w.Cols[cn.Name.L] = l[j]
			}
			out = append(out, w)
		}
	}
	return out, ""
}

// c03Stored is the literal a point lookup uses for a written sharding value: what the column
// stores (ints for int columns, canonical datetime for datetime columns).
func c03Stored(c *plCfg, e ast.ExprNode) (string, bool) {
	ve, ok := e.(*driver.ValueExpr)
	if !ok {
		return "", false
	}
	v, err := plValueOf(ve)
	if err != nil || v.Null {
		return "", false
	}
	switch c.KeyT {
	case plTInt:
		if v.IsStr {
			n, err := plParseInt(v.S)
			if err != nil {
				return "", false
			}
			return n.String(), true
		}
		return v.String(), true
	case plTDate:
		if !v.IsStr {
			return "", false
		}
		d, err := plNormDate(v.S)
		if err != nil {
			return "", false
		}
		return "'" + d + "'", true
	}
	if !v.IsStr {
		return "", false
	}
	return "'" + v.S + "'", true
}

var c03LookupCache = map[string][]int{}

// c03Lookup routes `SELECT * FROM t WHERE key = lit` through the real planner; -1 = not one table.
func c03Lookup(c *plCfg, seq, tbl, key, lit string) []int {
	k := c.ID + "|" + seq + "|" + tbl + "|" + lit
	if v, ok := c03LookupCache[k]; ok {
		return v
	}
	var res []int
	pl := plBuild(c, c.DB, "SELECT * FROM "+tbl+" WHERE "+key+" = "+lit)
	if !pl.Rejected() && !pl.Unshard {
		idxs, unknown, err := plDecodeTargets(c, tbl, plFlatten(pl.SQLs))
		if err == nil && len(unknown) == 0 {
			res = idxs
		}
	}
	c03LookupCache[k] = res
	return res
}

type c03Result struct {
	Clause       string
	Detail       string
	Rejected     string // "" | parse | error | panic | exec
	GenBug       string
	PointLookups int // rows whose placement was compared with a single-table point lookup
	Written      int
}

func c03Run(cs *c03Case) (res c03Result) {
	c, err := plGetCfg(cs.Cfg, cs.seqCol0())
	if err != nil {
		res.GenBug = err.Error()
		return
	}
	sql := c03SQL(c, cs)
	cs.SQL = sql
	if c.Seq != nil {
		// every case starts from the same sequence state, so that its verdict is a function of the case
		atomic.StoreInt64(&c.Seq.v, 0)
	}
	pl := plBuild(c, c.DB, sql)
	switch {
	case pl.ParseErr != "":
		res.GenBug = "generated text does not parse: " + pl.ParseErr + " :: " + sql
		return
	case pl.Panic != "":
		res.Rejected = "panic"
		return
	case pl.Err != "":
		res.Rejected = "error"
		return
	}
	if pl.Unshard {
		how := "BuildPlan returned an UnshardPlan"
		if pl.Fast {
			how = "the session's token pre-check took it for a statement on unsharded tables"
		}
		res.Clause = "planned-as-unsharded"
		res.Detail = fmt.Sprintf("insert into sharded table: %s; all rows go verbatim to the default slice: %v", how, plFlatten(pl.SQLs))
		return
	}
	x := &plExec{}
	if _, _, err := plExecute(pl.Plan, x); err != nil {
		if len(x.Sent) == 0 {
			res.Rejected = "exec"
			return
		}
		res.Clause, res.Detail = "failed-after-writing", fmt.Sprintf("ExecuteIn returned %v after %d statements had been sent", err, len(x.Sent))
		return
	}
	ltbl, lkey := cs.tblKey(c)
	written, bad := c03Decode(c, ltbl, x.Sent)
	if bad != "" {
		res.Clause, res.Detail = "bad-target", bad
		return
	}
	res.Written = len(written)
	// (1) an accepted statement has only routable rows
	var unroutable []string
	for _, r := range cs.Rows {
		if cs.Seq == "key" && cs.SeqOmit {
			break // the sharding column is not in the statement: every value is generated
		}
		if !c03Routable(r.Kind, cs.Seq) {
			unroutable = append(unroutable, r.Kind+" "+r.Key)
		}
	}
	byV := map[string][]c03Written{}
	for _, w := range written {
		v := "?"
		if e, ok := w.Cols["v"]; ok {
			v = c03Restore(e)
		}
		byV[v] = append(byV[v], w)
	}
	if len(unroutable) > 0 {
		lost := 0
		for i := range cs.Rows {
			if len(byV[fmt.Sprintf("'r%d'", i)]) == 0 {
				lost++
			}
		}
		res.Clause = "unroutable-accepted"
		res.Detail = fmt.Sprintf("statement with unroutable sharding value(s) %v was accepted; %d of %d rows were written, %d silently dropped; sent: %v", unroutable, len(written), len(cs.Rows), lost, x.Sent)
		return
	}
	// (2) each row exactly once
	for i := range cs.Rows {
		n := len(byV[fmt.Sprintf("'r%d'", i)])
		if n == 0 {
			res.Clause, res.Detail = "row-lost", fmt.Sprintf("row %d (key %s) is in no rewritten statement; sent: %v", i, cs.Rows[i].Key, x.Sent)
			return
		}
		if n > 1 {
			res.Clause, res.Detail = "row-duplicated", fmt.Sprintf("row %d (key %s) is written %d times; sent: %v", i, cs.Rows[i].Key, n, x.Sent)
			return
		}
	}
	if len(written) != len(cs.Rows) {
		res.Clause, res.Detail = "extra-row", fmt.Sprintf("%d rows written for %d rows given; sent: %v", len(written), len(cs.Rows), x.Sent)
		return
	}
	// (3) values unchanged, statement kind kept, (4) placement = point lookup
	seqCol := cs.seqCol(c)
	gen := map[string]bool{}
	for i, r := range cs.Rows {
		w := byV[fmt.Sprintf("'r%d'", i)][0]
		if w.Stmt.IsReplace != cs.Replace {
			res.Clause, res.Detail = "verb-changed", "INSERT/REPLACE verb differs in sent text: "+c03Restore(w.Stmt)
			return
		}
		if (len(w.Stmt.OnDuplicate) > 0) != ((cs.OnDup || cs.OnDupKey != "") && !cs.Replace) {
			res.Clause, res.Detail = "ondup-changed", "ON DUPLICATE KEY UPDATE clause differs in sent text: "+c03Restore(w.Stmt)
			return
		}
		if o, ok := w.Cols["other"]; !ok || c03Restore(o) != strconv.Itoa(i) {
			res.Clause, res.Detail = "value-changed", fmt.Sprintf("column other of row %d differs in sent text: %s", i, c03Restore(w.Stmt))
			return
		}
		ke, ok := w.Cols[lkey]
		if !ok {
			res.Clause, res.Detail = "key-missing", "sharding column absent from sent text: "+c03Restore(w.Stmt)
			return
		}
		generated := cs.Seq == "key" && (r.Kind == "seqnull" || r.Kind == "seqnext" || r.Kind == "null" || cs.SeqOmit)
		if !generated {
			orig, perr := parser.ParseSQL("SELECT " + r.Key)
			if perr == nil {
				want := c03Restore(orig.(*ast.SelectStmt).Fields.Fields[0].Expr)
				if got := c03Restore(ke); got != want {
					res.Clause, res.Detail = "value-changed", fmt.Sprintf("sharding value of row %d is %s in sent text, %s given", i, got, want)
					return
				}
			}
		}
		se, hasSeq := w.Cols[seqCol]
		if seqCol != "" && hasSeq && (generated || seqCol != c.Key) {
			// (the SET form does not add an omitted sequence column; that is outside this property)
			g := c03Restore(se)
			if n, err := strconv.ParseInt(g, 10, 64); err != nil || n <= 0 || gen[g] {
				res.Clause, res.Detail = "sequence-value", fmt.Sprintf("sequence column %s of row %d is %q in sent text (want a fresh positive integer): %s", seqCol, i, g, c03Restore(w.Stmt))
				return
			}
			gen[g] = true
		}
		stored, ok := c03Stored(c, ke)
		if !ok {
			res.Clause, res.Detail = "unroutable-written", fmt.Sprintf("row %d written with sharding value %s which is no literal of the column type", i, c03Restore(ke))
			return
		}
		if cs.Child && cs.PCol {
			if pe, ok := w.Cols[c.Key]; !ok || c03Restore(pe) != c03Canon(r.PKey) {
				res.Clause, res.Detail = "value-changed", fmt.Sprintf("column %s of row %d differs in sent text: %s", c.Key, i, c03Restore(w.Stmt))
				return
			}
		}
		want := c03Lookup(c, cs.seqCol0(), ltbl, lkey, stored)
		found := false
		for _, x := range want {
			if x == w.Idx {
				found = true
			}
		}
		if !found {
			res.Clause = "wrong-table"
			res.Detail = fmt.Sprintf("row %d (key %s) written to %s but `SELECT .. WHERE %s = %s` is routed to table indexes %v", i, r.Key, w.Addr.String(), lkey, stored, want)
			return
		}
		if len(want) == 1 {
			res.PointLookups++
		}
		// an ON DUPLICATE KEY UPDATE that assigns the sharding column rewrites the key of the row
		// already stored in this table: it must stay where a point query on the new key looks
		for _, a := range w.Stmt.OnDuplicate {
			if a.Column.Name.L != lkey {
				continue
			}
			nk, ok := c03Stored(c, a.Expr)
			if !ok {
				continue
			}
			stays := false
			for _, x := range c03Lookup(c, cs.seqCol0(), ltbl, lkey, nk) {
				if x == w.Idx {
					stays = true
				}
			}
			if !stays {
				res.Clause = "ondup-moves-key"
				res.Detail = fmt.Sprintf("accepted with ON DUPLICATE KEY UPDATE %s: on a duplicate the row stored in %s gets sharding value %s, which `SELECT .. WHERE %s = %s` looks for in table indexes %v", c03Restore(a), w.Addr.String(), nk, lkey, nk, c03Lookup(c, cs.seqCol0(), ltbl, lkey, nk))
				return
			}
		}
	}
	return
}

// seqCol0 is the sequence column name used as cache key of the layout ("" = none).
func (cs *c03Case) seqCol0() string {
	switch cs.Seq {
	case "key":
		return "id" // sequences on the sharding column are generated for int-keyed, non-calendar layouts only
	case "seq":
		return "seq"
	}
	return ""
}

// c03KeyOf draws a sharding value of the given kind; ok=false when the layout has none.
func c03KeyOf(r *kit.Rand, c *plCfg, kind string) (string, bool) {
	numeric := c.KeyT == plTInt && !c.Ts
	switch kind {
	case "lit":
		var pos []plKey
		for _, k := range c.Keys {
			if !strings.HasPrefix(k.SQL, "-") {
				pos = append(pos, k)
			}
		}
		if len(pos) == 0 {
			return "", false
		}
		return pos[r.Intn(len(pos))].SQL, true
	case "qint":
		if !numeric {
			return "", false
		}
		for try := 0; try < 20; try++ {
			k := c.Keys[r.Intn(len(c.Keys))]
			if k.V.I >= 0 {
				return "'" + k.SQL + "'", true
			}
		}
		return "", false
	case "qzero":
		if !numeric || c.Type == "mycat_string" || c.Type == "mycat_murmur" {
			return "", false
		}
		for try := 0; try < 20; try++ {
			k := c.Keys[r.Intn(len(c.Keys))]
			if k.V.I >= 0 {
				return "'0" + k.SQL + "'", true
			}
		}
		return "", false
	case "neg":
		if c.KeyT != plTInt {
			return "", false
		}
		return []string{"-5", "-1", "- 7", "+3", "-9223372036854775808"}[r.Intn(5)], true
	case "big", "qbig", "qneg":
		if !numeric {
			return "", false
		}
		v := []string{"9223372036854775807", "9223372036854775808", "18446744073709551615"}[r.Intn(3)]
		switch kind {
		case "qbig":
			return "'" + v + "'", true
		case "qneg":
			return []string{"'-5'", "'-1'", "'-9223372036854775808'"}[r.Intn(3)], true
		}
		return v, true
	case "arith":
		if c.KeyT != plTInt {
			return "", false
		}
		return []string{"2+1", "10-3", "2*3", "(4)"}[r.Intn(4)], true
	case "func":
		switch c.KeyT {
		case plTInt:
			return []string{"ABS(3)", "FLOOR(7)", "UNIX_TIMESTAMP()"}[r.Intn(3)], true
		case plTDate:
			return []string{"NOW()", "CURDATE()", "DATE('2016-01-01')"}[r.Intn(3)], true
		}
		return []string{"CONCAT('a','b')", "UPPER('ab')", "LOWER('AB')"}[r.Intn(3)], true
	case "null", "seqnull":
		return "NULL", true
	case "seqnext":
		return "nextval()", true
	case "oor":
		ls := c.LitsOfClass("out")
		if len(ls) == 0 {
			return "", false
		}
		return ls[r.Intn(len(ls))].SQL, true
	}
	return "", false
}

// c03Decos: table-name decorations of INSERT/REPLACE ("" most of the time); I = INTO omitted
var c03Decos = []string{"", "", "", "U", "M", "Q", "C", "I", "UI", "MI", "QI", "UQ", "MC", "QC"}

var c03Kinds = []string{"lit", "qint", "qzero", "neg", "arith", "func", "null", "oor", "big", "qbig", "qneg"}

// c03Minimize removes rows and decorations while the same clause keeps failing, then
// canonicalises the remaining kinds.
func c03Minimize(cs *c03Case, clause string) (*c03Case, string) {
	cur := *cs
	cur.Rows = append([]c03Row(nil), cs.Rows...)
	fails := func(x *c03Case) bool {
		r := c03Run(x)
		return r.GenBug == "" && r.Clause == clause
	}
	c, _ := plGetCfg(cur.Cfg, cur.seqCol0())
	r := kit.SubRand(1, "C03/minimize")
	for {
		progressed := false
		var cands []*c03Case
		for i := range cur.Rows {
			if len(cur.Rows) > 1 {
				x := cur
				x.Rows = append(append([]c03Row(nil), cur.Rows[:i]...), cur.Rows[i+1:]...)
				cands = append(cands, &x)
			}
		}
		if cur.Replace {
			x := cur
			x.Replace = false
			cands = append(cands, &x)
		}
		if cur.OnDup {
			x := cur
			x.OnDup = false
			cands = append(cands, &x)
		}
		if cur.OnDupKey != "" {
			x := cur
			x.OnDupKey, x.OnDupLit = "", ""
			cands = append(cands, &x)
			if cur.OnDupKey != "bare" {
				y := cur
				y.OnDupKey = "bare"
				cands = append(cands, &y)
			}
		}
		if cur.Style != "bare" {
			x := cur
			x.Style = "bare"
			cands = append(cands, &x)
		}
		for i := range cur.Deco {
			x := cur
			x.Deco = cur.Deco[:i] + cur.Deco[i+1:]
			cands = append(cands, &x)
		}
		if cur.Form == "set" && clause == "planned-as-unsharded" {
			x := cur
			x.Form = "values"
			cands = append(cands, &x)
		}
		if cur.KeyPos != 0 {
			x := cur
			x.KeyPos = 0
			cands = append(cands, &x)
		}
		if cur.Child {
			x := cur
			x.Child, x.PCol = false, false
			cands = append(cands, &x)
			if cur.PCol {
				y := cur
				y.PCol = false
				cands = append(cands, &y)
			}
		}
		if cur.Seq != "" {
			ok := true
			for _, row := range cur.Rows {
				if row.Kind == "seqnull" || row.Kind == "seqnext" {
					ok = false
				}
			}
			if ok && !(cur.Seq == "key" && cur.SeqOmit) {
				x := cur
				x.Seq, x.SeqOmit = "", false
				cands = append(cands, &x)
			}
		}
		for i, row := range cur.Rows {
			if row.Kind != "lit" && c03Routable(row.Kind, cur.Seq) {
				if k, ok := c03KeyOf(r, c, "lit"); ok {
					x := cur
					x.Rows = append([]c03Row(nil), cur.Rows...)
					x.Rows[i] = c03Row{Kind: "lit", Key: k, PKey: row.PKey}
					cands = append(cands, &x)
				}
			}
		}
		for _, x := range cands {
			if fails(x) {
				cur = *x
				progressed = true
				break
			}
		}
		if !progressed {
			break
		}
	}
	kinds := make([]string, len(cur.Rows))
	for i, row := range cur.Rows {
		kinds[i] = row.Kind
	}
	sort.Strings(kinds)
	parts := []string{cur.Form, clause, strings.Join(kinds, "+")}
	if clause == "planned-as-unsharded" {
		parts = []string{cur.Form, clause} // decided from the tokens, whatever the values are
	}
	if clause == "wrong-table" || clause == "bad-target" {
		parts = append(parts, c.Type)
	}
	if cur.Replace {
		parts = append(parts, "replace")
	}
	if cur.OnDup {
		parts = append(parts, "ondup")
	}
	if cur.OnDupKey != "" {
		parts = append(parts, "ondup-key="+cur.OnDupKey)
	}
	if cur.Style != "bare" {
		parts = append(parts, "style="+cur.Style)
	}
	if cur.Deco != "" {
		parts = append(parts, "deco="+cur.Deco)
	}
	if cur.Seq != "" {
		s := "seq=" + cur.Seq
		if cur.SeqOmit {
			s += "-omitted"
		}
		parts = append(parts, s)
	}
	if cur.KeyPos != 0 {
		parts = append(parts, "keypos")
	}
	if cur.Child {
		if cur.PCol {
			parts = append(parts, "linked-child+parent-key-column")
		} else {
			parts = append(parts, "linked-child")
		}
	}
	c03Run(&cur)
	return &cur, strings.Join(parts, "|")
}

// c03Global checks an insert into the layout's global table: written to every copy, rows intact.
func c03Global(rec *kit.Rec, c *plCfg, style string, nrows int) {
	tbl := c.Glob
	if style == "db" {
		tbl = c.DB + "." + c.Glob
	}
	var vals []string
	for i := 0; i < nrows; i++ {
		vals = append(vals, fmt.Sprintf("(%d, 'n%d')", i+1, i))
	}
	sql := "INSERT INTO " + tbl + " (gid, gname) VALUES " + strings.Join(vals, ", ")
	rec.Eval(1)
	pl := plBuild(c, c.DB, sql)
	if pl.Rejected() {
		rec.Count("global_rejected", 1)
		return
	}
	want := map[string]bool{}
	for _, i := range c.Idx {
		want[c.SliceOf[i]+"/"+c.gdb(i)] = true
	}
	got := map[string]bool{}
	caseDoc := map[string]interface{}{"cfg": c.ID, "sql": sql, "sent": plFlatten(pl.SQLs)}
	for _, s := range plFlatten(pl.SQLs) {
		stmt, err := parser.ParseSQL(s.SQL)
		ins, ok := stmt.(*ast.InsertStmt)
		if err != nil || !ok {
			rec.Violation("global|bad-sent-text", "insert into global table: sent text is no INSERT: "+s.SQL, caseDoc)
			return
		}
		db := s.DB
		if refs, _ := plRefsOf(ins.Table); len(refs) == 1 && refs[0].Schema != "" {
			db = refs[0].Schema
		}
		got[s.Slice+"/"+db] = true
		if len(ins.Lists) != nrows {
			rec.Violation("global|row-lost", fmt.Sprintf("insert into global table: copy %s/%s receives %d of %d rows: %s", s.Slice, db, len(ins.Lists), nrows, s.SQL), caseDoc)
			return
		}
	}
	for k := range want {
		if !got[k] {
			rec.Violation("global|copy-missed", fmt.Sprintf("[%s] %s: copy %s receives nothing (targets %v)", c.ID, sql, k, got), caseDoc)
			return
		}
	}
	for k := range got {
		if !want[k] {
			rec.Violation("global|unknown-copy", fmt.Sprintf("[%s] %s: sent to %s which is no configured copy", c.ID, sql, k), caseDoc)
			return
		}
	}
	rec.Count("global_inserts_checked", 1)
	rec.Nontrivial("global|" + c.Type + "|" + style)
}

// gdb is the physical database of the global table copy that accompanies table index i.
func (c *plCfg) gdb(i int) string {
	if c.Mycat {
		return c.DBOf[i]
	}
	return c.DB
}

func TestVerif_C03(t *testing.T) {
	rec := kit.Start("C03", "exploration", "INSERT/REPLACE statements = rule layout (12 sharded rule types x 3 layouts) x form (VALUES 1..6 rows | SET) x sharding-value kind per row (literal, quoted int, leading-zero quoted int, signed, arithmetic, function call, NULL, out-of-range, sequence-generated) x decorations (REPLACE, ON DUPLICATE KEY UPDATE non-key, db-qualified table, qualified column names, key column position, global sequence on key / other column / omitted); non-trivial = distinct (rule type, form, sorted kind multiset, sequence mode, outcome) of statements with >=2 rows or a non-literal kind")
	rec.Assume("type-consistent values: quoted integers only for rules that parse numbers; string-hashed rules get string keys; stored value = the literal converted to the column type")
	rec.Assume("accepted = BuildPlan returns a plan and Plan.ExecuteIn succeeds on an executor that, like SessionExecutor.ExecuteSQLs, refuses an empty statement map; a BuildPlan panic is a rejection (the session layer recovers and closes the connection)")
	defer rec.Finish(t)

	var lastGenBug string
	runOne := func(cs *c03Case) {
		res := c03Run(cs)
		rec.Eval(1)
		if res.GenBug != "" {
			rec.Count("generator_limit", 1)
			lastGenBug = res.GenBug
			return
		}
		c, _ := plGetCfg(cs.Cfg, cs.seqCol0())
		kinds := make([]string, len(cs.Rows))
		allRoutable := true
		for i, r := range cs.Rows {
			kinds[i] = r.Kind
			if !c03Routable(r.Kind, cs.Seq) {
				allRoutable = false
			}
		}
		sort.Strings(kinds)
		outcome := "accepted"
		if res.Rejected != "" {
			outcome = "rejected_" + res.Rejected
		}
		rec.Count(outcome, 1)
		if allRoutable {
			rec.Count("all_routable_"+outcome, 1)
		} else {
			rec.Count("has_unroutable_"+outcome, 1)
		}
		rec.Count("rows_written", int64(res.Written))
		rec.Count("rows_checked_against_single_table_point_lookup", int64(res.PointLookups))
		if len(cs.Rows) > 1 || !allRoutable || cs.Seq != "" || cs.Child {
			tgt := "parent"
			if cs.Child {
				tgt = "linked-child"
				rec.Count("child_"+outcome, 1)
			}
			rec.Nontrivial(c.Type + "|" + tgt + "|" + cs.Form + "|" + strings.Join(kinds, "+") + "|" + cs.Seq + "|" + outcome)
			rec.Sample(map[string]interface{}{"cfg": cs.Cfg, "sql": cs.SQL, "outcome": outcome, "rows_written": res.Written})
		}
		if res.Clause != "" {
			min, sig := c03Minimize(cs, res.Clause)
			r2 := c03Run(min)
			rec.Violation(sig, fmt.Sprintf("[%s] %s -- %s (first seen as: %s)", min.Cfg, min.SQL, r2.Detail, cs.SQL), min)
		}
	}

	if p := kit.ReplayPath(); p != "" {
		var cs c03Case
		if err := kit.LoadReplay(p, &cs); err != nil {
			t.Fatal(err)
		}
		res := c03Run(&cs)
		rec.Eval(1)
		fmt.Printf("replay: %s\n  rejected=%q clause=%q %s\n", cs.SQL, res.Rejected, res.Clause, res.Detail)
		if res.Clause != "" {
			_, sig := c03Minimize(&cs, res.Clause)
			rec.Violation(sig, res.Detail, &cs)
		}
		rec.Nontrivial("replay")
		rec.Nontrivial("replay2")
		rec.Sample(cs)
		return
	}

	var ids []string
	for _, id := range plAllCfgIDs() {
		if _, err := plGetCfg(id, ""); err != nil {
			rec.Inconclusive("layout does not load: " + err.Error())
			return
		}
		ids = append(ids, id)
	}

	pr := kit.SubRand(kit.Seed(), "C03/parent-column")
	mk := func(r *kit.Rand, c *plCfg, kinds []string) ([]c03Row, bool) {
		rows := make([]c03Row, len(kinds))
		for i, k := range kinds {
			key, ok := c03KeyOf(r, c, k)
			if !ok {
				return nil, false
			}
			// value for the column named like the parent's sharding column (child inserts only),
			// chosen independently of the child's own key
			pk, _ := c03KeyOf(pr, c, "lit")
			rows[i] = c03Row{Kind: k, Key: key, PKey: pk}
		}
		return rows, true
	}

	// (1) structured: every kind vector up to length 2 (quick) / 3 (thorough) per layout, VALUES
	// form; every kind in the SET form
	r := kit.SubRand(kit.Seed(), "C03/structured")
	maxLen := kit.N(2, 3)
	for _, id := range ids {
		c, _ := plGetCfg(id, "")
		var vec func(prefix []string)
		vec = func(prefix []string) {
			if len(prefix) > 0 {
				if rows, ok := mk(r, c, prefix); ok {
					runOne(&c03Case{Cfg: id, Form: "values", Style: "bare", KeyPos: len(prefix) % 3, Rows: rows})
				}
			}
			if len(prefix) == maxLen {
				return
			}
			for _, k := range c03Kinds {
				vec(append(append([]string(nil), prefix...), k))
			}
		}
		vec(nil)
		for _, k := range c03Kinds {
			if rows, ok := mk(r, c, []string{k}); ok {
				runOne(&c03Case{Cfg: id, Form: "set", Style: "bare", KeyPos: 1, Rows: rows})
				runOne(&c03Case{Cfg: id, Form: "set", Style: "db", Replace: true, KeyPos: 0, Rows: rows})
			}
		}
		for _, st := range []string{"bare", "db"} {
			c03Global(rec, c, st, 1+len(id)%3)
		}
		// ON DUPLICATE KEY UPDATE that assigns the sharding column, every spelling, VALUES and SET
		for _, spell := range []string{"bare", "upper", "bq", "tbl", "db"} {
			for j, form := range []string{"values", "set"} {
				rows, ok := mk(r, c, []string{"lit"})
				lit, ok2 := c03KeyOf(r, c, "lit")
				if ok && ok2 {
					runOne(&c03Case{Cfg: id, Form: form, Style: []string{"bare", "db"}[j], KeyPos: j, OnDup: j == 1, OnDupKey: spell, OnDupLit: lit, Rows: rows})
					runOne(&c03Case{Cfg: id, Form: form, Style: "bare", KeyPos: 1, Child: true, PCol: j == 0, OnDupKey: spell, OnDupLit: lit, Rows: rows})
				}
			}
		}
		// every spelling of the table reference, VALUES and SET form, INSERT and REPLACE
		if rows, ok := mk(r, c, []string{"lit"}); ok {
			for _, dc := range []string{"U", "M", "Q", "C", "I", "UI", "MI", "QI", "CI", "UQ", "MC", "QC"} {
				for _, st := range []string{"bare", "db"} {
					runOne(&c03Case{Cfg: id, Form: "values", Style: st, Deco: dc, KeyPos: 0, Rows: rows})
					runOne(&c03Case{Cfg: id, Form: "set", Style: st, Deco: dc, KeyPos: 1, Replace: st == "db", Rows: rows})
					runOne(&c03Case{Cfg: id, Form: "values", Style: st, Deco: dc, KeyPos: 1, Child: true, PCol: true, Replace: st == "bare", Rows: rows})
				}
			}
		}
		// linked child table: its own sharding column differs from the parent's, and the column
		// named like the parent's key carries an independent value
		for _, k1 := range c03Kinds {
			for _, pcol := range []bool{true, false} {
				if rows, ok := mk(r, c, []string{k1}); ok {
					runOne(&c03Case{Cfg: id, Form: "values", Style: "bare", KeyPos: 1, Child: true, PCol: pcol, Rows: rows})
					runOne(&c03Case{Cfg: id, Form: "set", Style: "db", KeyPos: 0, Child: true, PCol: pcol, Replace: pcol, Rows: rows})
				}
			}
			for _, k2 := range c03Kinds {
				if rows, ok := mk(r, c, []string{k1, k2, "lit"}); ok {
					runOne(&c03Case{Cfg: id, Form: "values", Style: "bare", KeyPos: len(k1) % 3, Child: true, PCol: true, Replace: k1 == k2, Rows: rows})
				}
			}
		}
	}

	// (2) random statements with every decoration
	r = kit.SubRand(kit.Seed(), "C03/random")
	n := kit.N(2500, 60000)
	for i := 0; i < n; i++ {
		id := ids[r.Intn(len(ids))]
		cs := &c03Case{Cfg: id, Form: "values", Style: []string{"bare", "bare", "db", "colq"}[r.Intn(4)], KeyPos: r.Intn(3),
			Replace: r.Chance(1, 4), OnDup: r.Chance(1, 4), Deco: c03Decos[r.Intn(len(c03Decos))]}
		spec, _ := plGetCfg(id, "")
		if r.Chance(1, 3) {
			if spec.KeyT == plTInt && !spec.Ts && r.Bool() {
				cs.Seq = "key"
			} else {
				cs.Seq = "seq"
			}
			cs.SeqOmit = r.Chance(1, 3)
		}
		c, err := plGetCfg(id, cs.seqCol0())
		if err != nil {
			rec.Inconclusive("layout with sequence does not load: " + err.Error())
			return
		}
		nrows := r.Range(1, 6)
		if r.Chance(1, 6) {
			cs.Form, nrows = "set", 1
		}
		var kinds []string
		for j := 0; j < nrows; j++ {
			switch {
			case cs.Seq == "key" && r.Chance(1, 2):
				kinds = append(kinds, []string{"seqnull", "seqnext"}[r.Intn(2)])
			case r.Chance(3, 5):
				kinds = append(kinds, []string{"lit", "lit", "qint", "qzero"}[r.Intn(4)])
			default:
				kinds = append(kinds, c03Kinds[r.Intn(len(c03Kinds))])
			}
		}
		if cs.Seq == "key" && cs.SeqOmit {
			// the sharding column is not in the statement: every value is generated
			for j := range kinds {
				kinds[j] = "seqnext"
			}
		}
		rows, ok := mk(r, c, kinds)
		if !ok {
			continue
		}
		cs.Rows = rows
		if !cs.Replace && cs.Seq == "" && r.Chance(1, 8) {
			if lit, ok := c03KeyOf(r, c, "lit"); ok {
				cs.OnDupKey, cs.OnDupLit = []string{"bare", "upper", "bq", "tbl", "db"}[r.Intn(5)], lit
			}
		}
		runOne(cs)
	}

	// (3) random statements on the linked child tables
	r = kit.SubRand(kit.Seed(), "C03/child")
	for i := 0; i < kit.N(800, 20000); i++ {
		id := ids[r.Intn(len(ids))]
		c, _ := plGetCfg(id, "")
		cs := &c03Case{Cfg: id, Form: "values", Style: []string{"bare", "db", "colq"}[r.Intn(3)], KeyPos: r.Intn(3),
			Replace: r.Chance(1, 3), OnDup: r.Chance(1, 4), Child: true, PCol: r.Chance(3, 4), Deco: c03Decos[r.Intn(len(c03Decos))]}
		nrows := r.Range(1, 5)
		if r.Chance(1, 5) {
			cs.Form, nrows = "set", 1
		}
		var kinds []string
		for j := 0; j < nrows; j++ {
			if r.Chance(3, 4) {
				kinds = append(kinds, []string{"lit", "lit", "qint", "qzero"}[r.Intn(4)])
			} else {
				kinds = append(kinds, c03Kinds[r.Intn(len(c03Kinds))])
			}
		}
		rows, ok := mk(r, c, kinds)
		if !ok {
			continue
		}
		cs.Rows = rows
		runOne(cs)
	}

	if g := rec.CounterValue("generator_limit"); g > 0 {
		rec.Set("last_generator_limit", lastGenBug)
		if g*20 > rec.CounterValue("accepted")+rec.CounterValue("rejected_error") {
			rec.Inconclusive(fmt.Sprintf("%d generated statements were outside the parser subset (last: %s)", g, lastGenBug))
		}
	}
	if rec.CounterValue("all_routable_accepted") == 0 || rec.CounterValue("has_unroutable_rejected_error") == 0 {
		rec.Inconclusive("the workload never produced both an accepted all-routable statement and a rejected unroutable one")
	}
}
