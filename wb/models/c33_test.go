package models

// C33 — stored configurations round-trip exactly and stay inside the storage area.
//
// (a) round trip: a generated namespace goes through the control plane's own steps
//     (Verify -> Encrypt -> Encode -> Store.UpdateNamespace) into the real LocalClient (temp
//     dir) and into the real etcd v2 client talking to the fake etcd of verifkit/cc, and is
//     loaded back the ways a proxy does it (Store.LoadNamespace, Store.LoadNamespaces,
//     LoadOriginNamespace(s) -> local copy -> LoadNamespace / DecryptNamespaces). Oracle:
//     the loaded value is deep-equal to the submitted one after Verify's own normalisation
//     (is_encrypt, a storage flag, is not part of the configuration).
// (b) decrypt / DecryptECB / Namespace.Decrypt on arbitrary ciphertext and keys: never a
//     panic; an error or some data.
// (c) containment: the path workload runs in a child process (this test binary re-executed
//     with C33_CHILD set) under `strace -f -e trace=%file`; every path used by a file-system
//     call between the markers of an operation must resolve under the storage directory
//     (ancestors may be stat'ed / mkdir'ed, that is how the directory itself is created), and
//     canary files planted beside the storage directory must be untouched.

import (
	"bufio"
	"bytes"
	"crypto/aes"
	"encoding/base64"
	"encoding/hex"
	"encoding/json"
	"fmt"
	"io/ioutil"
	"os"
	"os/exec"
	"path/filepath"
	"reflect"
	"regexp"
	"sort"
	"strconv"
	"strings"
	"testing"
	"time"

	"github.com/XiaoMi/Gaea/log"
	"github.com/XiaoMi/Gaea/util/crypto"
	kit "github.com/XiaoMi/Gaea/verifkit"
	cckit "github.com/XiaoMi/Gaea/verifkit/cc"
)

type c33NullLog struct{}

func (c33NullLog) SetLevel(name, level string) error                    { return nil }
func (c33NullLog) Debug(format string, a ...interface{}) error          { return nil }
func (c33NullLog) Trace(format string, a ...interface{}) error          { return nil }
func (c33NullLog) Notice(format string, a ...interface{}) error         { return nil }
func (c33NullLog) Warn(format string, a ...interface{}) error           { return nil }
func (c33NullLog) Fatal(format string, a ...interface{}) error          { return nil }
func (c33NullLog) Debugx(logID, format string, a ...interface{}) error  { return nil }
func (c33NullLog) Tracex(logID, format string, a ...interface{}) error  { return nil }
func (c33NullLog) Noticex(logID, format string, a ...interface{}) error { return nil }
func (c33NullLog) Warnx(logID, format string, a ...interface{}) error   { return nil }
func (c33NullLog) Fatalx(logID, format string, a ...interface{}) error  { return nil }
func (c33NullLog) Close()                                               {}
func (c33NullLog) Dropped(i int) uint64                                 { return 0 }

// ======================================================================================
// (a) round trip
// ======================================================================================

// c33RT is one round-trip case: everything is a function of these fields.
type c33RT struct {
	Part     string `json:"part"` // "roundtrip"
	State    uint64 `json:"prng_state"`
	NameCls  string `json:"name_class"`
	CredCls  string `json:"cred_class"`
	KeyLen   int    `json:"key_len"`
	Rich     bool   `json:"rich"`     // generated optional fields (else the minimal document)
	ManyCred bool   `json:"manycred"` // several users / slices (else one of each)
	Etcd     bool   `json:"etcd"`     // also through the etcd v2 client + local copy (else LocalClient only)
}

var c33NameClasses = []string{"plain", "dotted", "unicode", "innerspace", "padded", "slash", "jsonspecial", "localforbidden", "long"}
var c33CredClasses = []string{"ascii", "padded", "badutf8", "allbytes", "len15", "len16", "len17", "len31", "len32", "len33", "quotes", "nul", "spacesonly", "long"}

func c33Name(cls string, r *kit.Rand) string {
	base := "ns" + strconv.Itoa(r.Intn(1000))
	switch cls {
	case "dotted":
		return base + ".prod-eu_1"
	case "unicode":
		return base + "_数据库_ß_🙂"
	case "innerspace":
		return base + " with space"
	case "padded":
		return []string{" " + base, base + " ", "\t" + base + " \n"}[r.Intn(3)]
	case "slash":
		return "team" + strconv.Itoa(r.Intn(10)) + "/" + base
	case "jsonspecial":
		return base + "\\back'quote&amp\u2028x"
	case "localforbidden":
		return base + []string{"<", ">", "\"", "|", "?", "*"}[r.Intn(6)] + "x"
	case "long":
		return base + "_" + strings.Repeat("n", 180)
	}
	return base
}

func c33Cred(cls string, r *kit.Rand) string {
	switch cls {
	case "padded":
		return "  pad" + strconv.Itoa(r.Intn(1000)) + "\t "
	case "badutf8":
		return string([]byte{0xff, 0xfe, 'a', 0x80, byte(r.Intn(256)), 0xc3, 0x28})
	case "allbytes":
		b := make([]byte, 256)
		for i := range b {
			b[i] = byte(i + 1) // starts at 0x01, ends with 0x00
		}
		return "x" + string(b) + "y"
	case "len15", "len16", "len17", "len31", "len32", "len33":
		n, _ := strconv.Atoi(cls[3:])
		b := r.Bytes(n)
		b[0], b[n-1] = 'k', 'z' // no surrounding white space
		return string(b)
	case "quotes":
		return "a\"b'c\\d`e" + strconv.Itoa(r.Intn(100))
	case "nul":
		return "a\x00b" + strconv.Itoa(r.Intn(100))
	case "spacesonly":
		return "   "
	case "long":
		return "L" + string(bytes.Repeat([]byte{0xe2, 0x82, 0xac}, 300)) + strconv.Itoa(r.Intn(100))
	}
	return "user_" + strconv.Itoa(r.Intn(100000))
}

// c33Gen builds the submitted namespace; calling it twice with the same case yields two
// independent, identical values (no JSON copy: credentials may be invalid UTF-8).
func c33Gen(c c33RT) (*Namespace, string) {
	r := kit.NewRand(c.State)
	key := string(r.Bytes(c.KeyLen))
	name := c33Name(c.NameCls, r)
	n := &Namespace{Name: name, AllowedDBS: map[string]bool{"db1": true}}
	nUsers, nSlices := 1, 1
	if c.ManyCred {
		nUsers, nSlices = r.Range(2, 4), r.Range(2, 3)
	}
	for i := 0; i < nUsers; i++ {
		u := &User{UserName: c33Cred(c.CredCls, r), Password: c33Cred(c.CredCls, r), RWFlag: r.Range(1, 2), RWSplit: r.Intn(2)}
		if i > 0 || c.CredCls == "spacesonly" {
			u.UserName = "u" + strconv.Itoa(i) + u.UserName
		}
		if r.Bool() {
			u.Namespace = name
		}
		if c.Rich {
			u.OtherProperty = r.Intn(2)
		}
		n.Users = append(n.Users, u)
	}
	for i := 0; i < nSlices; i++ {
		s := &Slice{Name: "slice-" + strconv.Itoa(i), UserName: "b" + c33Cred(c.CredCls, r), Password: c33Cred(c.CredCls, r),
			Master: "127.0.0.1:3306", Capacity: r.Range(1, 8), MaxCapacity: 8, IdleTimeout: r.Intn(3600)}
		if c.Rich {
			s.Slaves = []string{"127.0.0.1:3307", "127.0.0.1:3308@2#dc"}
			if r.Bool() {
				s.StatisticSlaves = []string{}
			}
			s.InitConnect = "set names 'utf8mb4'; select \"x\""
			s.HealthCheckSql = "select 1"
			s.HandshakeTimeout = r.Intn(5000)
			s.Capability = uint32(r.Intn(1 << 20))
		}
		n.Slices = append(n.Slices, s)
	}
	if c.Rich {
		n.Online, n.ReadOnly, n.OpenGeneralLog = r.Bool(), r.Bool(), r.Bool()
		n.AllowedDBS["数据_db"] = r.Bool()
		if r.Bool() {
			n.DefaultPhyDBS = map[string]string{"db1": "phy_db1", "数据_db": "phy\"2"}
		}
		n.SlowSQLTime = strconv.Itoa(r.Intn(100000))
		n.BlackSQL = []string{"update t set a='<x>' where b=\"&\"", "delete from `t`\u2028"}
		n.AllowedIP = []string{"127.0.0.1", "10.0.0.0/8", "", "::1"}
		n.DefaultSlice = n.Slices[r.Intn(len(n.Slices))].Name
		if len(n.Slices) >= 2 {
			n.ShardRules = []*Shard{{DB: "db1", Table: "tbl_" + strconv.Itoa(r.Intn(100)), Type: "hash", Key: "id", Locations: []int{1, 1},
				Slices: []string{n.Slices[0].Name, n.Slices[1].Name}, TableRowLimit: r.Intn(100)}}
		}
		n.GlobalSequences = []*GlobalSequence{{DB: "db1", Table: "seq", Type: "mysql", SliceName: n.Slices[0].Name, PKName: "id", MaxLimit: r.Int63()}}
		n.DefaultCharset, n.DefaultCollation = "utf8mb4", "utf8mb4_general_ci"
		n.MaxSqlExecuteTime, n.MaxSqlResultSize, n.MaxClientConnections = r.Intn(10000), r.Intn(100000)-1, r.Intn(1000)
		n.DownAfterNoAlive, n.SecondsBehindMaster = r.Intn(100), r.Uint64()>>r.Intn(64)
		n.CheckSelectLock, n.SupportMultiQuery, n.SetForKeepSession, n.SupportLimitTransaction = r.Bool(), r.Bool(), r.Bool(), r.Bool()
		n.LocalSlaveReadPriority, n.ClientQPSLimit = r.Intn(3), uint32(r.Intn(5000))
		if r.Bool() {
			n.AllowedSessionVariables = map[string]string{"sql_mode": "string", "timezone": "x\"y"}
		}
		n.FallbackToMasterOnSlaveFail = []string{"", "on", "off", "ON"}[r.Intn(4)]
		n.FuseEnabled = []string{"", "on", "off", "Off"}[r.Intn(4)]
		n.FuseWindowSize, n.FuseMinErrorCount, n.FuseCoolDownPeriod = r.Int63()>>40, r.Int63()>>50, r.Int63()>>45
	}
	return n, key
}

// c33Diff names the first place where two namespaces differ ("" = equal), ignoring the
// is_encrypt storage flag. Field paths only, no values: it feeds the signature.
func c33Diff(got, want *Namespace) string {
	if got == nil {
		return "nil"
	}
	g := *got
	g.IsEncrypt = want.IsEncrypt
	if reflect.DeepEqual(&g, want) {
		return ""
	}
	gv, wv := reflect.ValueOf(g), reflect.ValueOf(*want)
	for i := 0; i < gv.NumField(); i++ {
		if reflect.DeepEqual(gv.Field(i).Interface(), wv.Field(i).Interface()) {
			continue
		}
		fn := gv.Type().Field(i).Name
		gf, wf := gv.Field(i), wv.Field(i)
		if gf.Kind() == reflect.Slice && gf.Len() == wf.Len() && gf.Len() > 0 && gf.Index(0).Kind() == reflect.Ptr {
			for k := 0; k < gf.Len(); k++ {
				ge, we := gf.Index(k).Elem(), wf.Index(k).Elem()
				if !ge.IsValid() || !we.IsValid() {
					continue
				}
				for j := 0; j < ge.NumField(); j++ {
					if !reflect.DeepEqual(ge.Field(j).Interface(), we.Field(j).Interface()) {
						return fn + "." + ge.Type().Field(j).Name
					}
				}
			}
		}
		return fn
	}
	return "unknown"
}

type c33Stores struct {
	dir         string
	local       *Store // real LocalClient, storage dir = dir/local
	localCopy   *Store // the proxy's local copy of the coordinator's content (dir/copy)
	etcd        *Store // real etcd v2 client -> fake etcd
	fake        *cckit.FakeEtcd
	localClient *LocalClient
}

func c33NewStores() (*c33Stores, error) {
	dir, err := ioutil.TempDir("", "c33_")
	if err != nil {
		return nil, err
	}
	s := &c33Stores{dir: dir}
	lc, err := NewLocalClient(filepath.Join(dir, "local"), "/gaea_c33")
	if err != nil {
		return nil, err
	}
	s.localClient = lc
	s.local = NewStore(lc)
	lc2, err := NewLocalClient(filepath.Join(dir, "copy"), "/gaea_c33")
	if err != nil {
		return nil, err
	}
	s.localCopy = NewStore(lc2)
	if s.fake, err = cckit.NewFakeEtcd(); err != nil {
		return nil, err
	}
	ec, err := NewClient(ConfigEtcd, s.fake.URL(), "", "", "/gaea_c33")
	if err != nil {
		return nil, err
	}
	s.etcd = NewStore(ec)
	return s, nil
}

func (s *c33Stores) close() {
	s.fake.Close()
	os.RemoveAll(s.dir)
}

// c33RTOutcome: clause = "" when the property held on this case.
type c33RTOutcome struct {
	Case     c33RT    `json:"case"`
	Name     string   `json:"name"`
	Rejected string   `json:"rejected,omitempty"` // refused loudly before anything was stored
	Clauses  []string `json:"clauses,omitempty"`  // oracle clauses refuted: "<backend>.<load path>:<what>"
	Errors   []string `json:"errors,omitempty"`
}

func c33RunRT(st *c33Stores, c c33RT) (out c33RTOutcome) {
	out.Case = c
	defer func() {
		if p := recover(); p != nil {
			out.Clauses = append(out.Clauses, "panic")
			out.Errors = append(out.Errors, fmt.Sprint(p))
		}
		sort.Strings(out.Clauses)
	}()
	want, key := c33Gen(c)
	out.Name = want.Name
	if err := want.Verify(); err != nil {
		out.Rejected = "verify: " + err.Error()
		return
	}
	sub, _ := c33Gen(c)
	// ---- control-plane side, as cc/service.ModifyNamespace does it ----
	if err := sub.Verify(); err != nil {
		out.Rejected = "verify: " + err.Error()
		return
	}
	if err := sub.Encrypt(key); err != nil {
		out.Rejected = "encrypt: " + err.Error()
		return
	}
	fail := func(clause string, err error) {
		out.Clauses = append(out.Clauses, clause)
		if err != nil {
			out.Errors = append(out.Errors, clause+": "+err.Error())
		}
	}
	check := func(backend, path string, got *Namespace, err error) {
		if err != nil {
			fail(backend+"."+path+":load-error", err)
			return
		}
		if d := c33Diff(got, want); d != "" {
			fail(backend+"."+path+":differs:"+d, nil)
		}
	}
	loadAll := func(backend string, s *Store) {
		got, err := s.LoadNamespace(key, sub.Name)
		check(backend, "LoadNamespace", got, err)
		all, err := s.LoadNamespaces(key)
		if err != nil {
			fail(backend+".LoadNamespaces:load-error", err)
		} else if g, ok := all[s.NamespacePath(sub.Name)]; !ok {
			fail(backend+".LoadNamespaces:missing", nil)
		} else {
			check(backend, "LoadNamespaces", g, nil)
		}
	}
	// second generation: what a load returned (decrypted, is_encrypt still true) is saved again
	// the way the control plane does it (rollback in ModifyNamespace stores the loaded previous
	// version; a fetched configuration is edited and resubmitted) and must load again
	gen2 := func(backend string, s *Store) {
		for _, edit := range []bool{false, true} {
			path := "gen2.LoadNamespace"
			loaded, err := s.LoadNamespace(key, sub.Name)
			if err != nil || loaded == nil {
				return // already reported by the first-generation checks
			}
			want2, _ := c33Gen(c)
			if want2.Verify() != nil {
				return
			}
			if edit {
				path = "gen2edit.LoadNamespace"
				loaded.MaxSqlExecuteTime += 7
				want2.MaxSqlExecuteTime += 7
				loaded.Users[0].Password = "edited\xff" + loaded.Users[0].Password
				want2.Users[0].Password = "edited\xff" + want2.Users[0].Password
			}
			if err := loaded.Verify(); err != nil {
				return // refused loudly (e.g. a password that the first Verify trimmed to nothing)
			}
			if want2.Verify() != nil {
				return
			}
			if err := loaded.Encrypt(key); err != nil {
				fail(backend+"."+path+":encrypt-error", err)
				return
			}
			if err := s.UpdateNamespace(loaded); err != nil {
				fail(backend+"."+path+":store-error", err)
				return
			}
			got, err := s.LoadNamespace(key, sub.Name)
			if err != nil {
				fail(backend+"."+path+":load-error", err)
				return
			}
			if d := c33Diff(got, want2); d != "" {
				fail(backend+"."+path+":differs:"+d, nil)
				return
			}
		}
	}
	// coordinator = fake etcd through the real etcd client
	if !c.Etcd {
		// local store only
	} else if err := st.etcd.UpdateNamespace(sub); err != nil {
		out.Rejected = "etcd store: " + err.Error()
	} else {
		loadAll("etcd", st.etcd)
		// proxy start-up path (SyncNamespaces): origin namespaces -> local copy -> decrypt
		origin, err := st.etcd.LoadOriginNamespaces()
		if err != nil {
			fail("etcd.LoadOriginNamespaces:load-error", err)
		} else {
			copyRefused := false
			for _, ns := range origin {
				if err := st.localCopy.UpdateNamespace(ns); err != nil {
					copyRefused = true // loud refusal of the local copy: logged by the proxy, not silent
				}
			}
			dec, err := DecryptNamespaces(origin, key)
			if err != nil {
				fail("etcd.DecryptNamespaces:load-error", err)
			} else if g, ok := dec[st.etcd.NamespacePath(sub.Name)]; !ok {
				fail("etcd.DecryptNamespaces:missing", nil)
			} else {
				check("etcd", "DecryptNamespaces", g, nil)
			}
			if !copyRefused {
				loadAll("copy", st.localCopy)
			}
		}
		// admin commit path (updateNamespaceLocal): LoadOriginNamespace -> local copy
		if o, err := st.etcd.LoadOriginNamespace(sub.Name); err != nil {
			fail("etcd.LoadOriginNamespace:load-error", err)
		} else if err := st.localCopy.UpdateNamespace(o); err == nil {
			got, err := st.localCopy.LoadNamespace(key, sub.Name)
			check("copy", "LoadNamespace", got, err)
		}
		gen2("etcd", st.etcd)
		st.etcd.DelNamespace(sub.Name)
		st.localCopy.DelNamespace(sub.Name)
	}
	// local store used directly
	if err := st.local.UpdateNamespace(sub); err != nil {
		if out.Rejected == "" {
			out.Rejected = "local store: " + err.Error()
		}
	} else {
		out.Rejected = ""
		loadAll("local", st.local)
		gen2("local", st.local)
		st.local.DelNamespace(sub.Name)
	}
	return
}

// c33RTSig: sorted refuted clauses + the classes that are still needed after shrinking.
func c33RTSig(c c33RT, clauses []string) string {
	return fmt.Sprintf("roundtrip|name=%s|cred=%s|rich=%v|many=%v|keylen=%d|etcd=%v|%s", c.NameCls, c.CredCls, c.Rich, c.ManyCred, c.KeyLen, c.Etcd, strings.Join(clauses, "+"))
}

// c33RTWeaker: one-step simplifications towards the plain minimal document.
func c33RTWeaker(c c33RT) []c33RT {
	var out []c33RT
	if c.Rich {
		d := c
		d.Rich = false
		out = append(out, d)
	}
	if c.ManyCred {
		d := c
		d.ManyCred = false
		out = append(out, d)
	}
	if c.NameCls != "plain" {
		d := c
		d.NameCls = "plain"
		out = append(out, d)
	}
	if c.CredCls != "ascii" {
		d := c
		d.CredCls = "ascii"
		out = append(out, d)
	}
	if c.KeyLen != 16 {
		d := c
		d.KeyLen = 16
		out = append(out, d)
	}
	if c.Etcd {
		d := c
		d.Etcd = false
		out = append(out, d)
	}
	return out
}

func c33RoundTrip(rec *kit.Rec, only *c33RT) {
	st, err := c33NewStores()
	if err != nil {
		rec.Inconclusive("stores could not be built: " + err.Error())
		return
	}
	defer st.close()
	// the outcome of a case is a function of its class vector (the PRNG state only picks
	// digits and numbers), so the shrink of a failing class vector is computed once
	shrunk := map[string]c33RTOutcome{}
	classKey := func(o c33RTOutcome) string {
		c := o.Case
		return fmt.Sprintf("%s|%s|%v|%v|%d|%v|%s", c.NameCls, c.CredCls, c.Rich, c.ManyCred, c.KeyLen, c.Etcd, strings.Join(o.Clauses, "+"))
	}
	report := func(o c33RTOutcome) {
		cur := o
		ck := classKey(o)
		if m, ok := shrunk[ck]; ok {
			rec.Count("roundtrip.shrink_cached", 1)
			rec.Violation(c33RTSig(m.Case, m.Clauses), "see first occurrence", m)
			return
		}
		defer func() { shrunk[ck] = cur }()
		for changed := true; changed; {
			changed = false
			for _, w := range c33RTWeaker(cur.Case) {
				wo := c33RunRT(st, w)
				if len(wo.Clauses) > 0 {
					cur, changed = wo, true
					break
				}
			}
		}
		rec.Violation(c33RTSig(cur.Case, cur.Clauses), fmt.Sprintf("namespace name %q (class %s), credentials class %s, key length %d: %s %v",
			cur.Name, cur.Case.NameCls, cur.Case.CredCls, cur.Case.KeyLen, strings.Join(cur.Clauses, ", "), cur.Errors), cur)
	}
	if only != nil {
		o := c33RunRT(st, *only)
		rec.Eval(1)
		rec.Sample(o)
		if len(o.Clauses) > 0 {
			report(o)
		}
		return
	}
	r := kit.SubRand(kit.Seed(), "C33/roundtrip")
	total := kit.N(2000, 30000)
	keyLens := []int{16, 24, 32, 16, 24, 32, 16, 24, 32, 0, 15, 17, 33}
	for i := 0; i < total; i++ {
		c := c33RT{Part: "roundtrip", State: r.Uint64(), KeyLen: keyLens[r.Intn(len(keyLens))], Rich: r.Chance(2, 3), ManyCred: r.Bool(), Etcd: i%3 == 0}
		// the grid name class x credential class is walked systematically, the rest is drawn
		c.NameCls = c33NameClasses[i%len(c33NameClasses)]
		c.CredCls = c33CredClasses[(i/len(c33NameClasses))%len(c33CredClasses)]
		o := c33RunRT(st, c)
		rec.Eval(1)
		rec.Count("roundtrip.cases", 1)
		switch {
		case o.Rejected != "" && len(o.Clauses) == 0:
			rec.Count("roundtrip.rejected."+strings.SplitN(o.Rejected, ":", 2)[0], 1)
		default:
			rec.Count("roundtrip.stored_and_loaded", 1)
			rec.Nontrivial(fmt.Sprintf("rt|%s|%s|%d|%v|%v|%v", c.NameCls, c.CredCls, c.KeyLen, c.Rich, c.ManyCred, c.Etcd))
			if c.Etcd {
				rec.Count("roundtrip.through_etcd", 1)
			}
		}
		if i%97 == 0 {
			rec.Sample(o)
		}
		if len(o.Clauses) > 0 {
			rec.Count("roundtrip.refuted", 1)
			report(o)
		}
	}
	if rec.CounterValue("roundtrip.stored_and_loaded") == 0 || rec.CounterValue("roundtrip.through_etcd") == 0 {
		rec.Inconclusive("no generated namespace could be stored and loaded back (every case was refused): the round trip was not observed")
	}
}

// ======================================================================================
// (b) decryption of arbitrary data
// ======================================================================================

type c33Dec struct {
	Part   string `json:"part"` // "decrypt"
	Fn     string `json:"fn"`
	KeyHex string `json:"key_hex"`
	Data   string `json:"data_hex"`
	Class  string `json:"class"`
}

func c33RunDec(c c33Dec) (panicked string) {
	defer func() {
		if p := recover(); p != nil {
			panicked = fmt.Sprint(p)
		}
	}()
	key, _ := hex.DecodeString(c.KeyHex)
	data, _ := hex.DecodeString(c.Data)
	switch c.Fn {
	case "DecryptECB":
		crypto.DecryptECB(string(key), append([]byte(nil), data...))
	case "decrypt":
		decrypt(string(key), string(data))
	case "decrypt.b64":
		decrypt(string(key), base64.StdEncoding.EncodeToString(data))
	case "Namespace.Decrypt":
		b := base64.StdEncoding.EncodeToString(data)
		n := &Namespace{IsEncrypt: true, Users: []*User{{UserName: b, Password: string(data)}}, Slices: []*Slice{{UserName: string(data), Password: b}}}
		n.Decrypt(string(key))
	case "EncryptECB":
		crypto.EncryptECB(string(key), data)
	}
	return ""
}

func c33Decrypt(rec *kit.Rec, only *c33Dec) {
	if only != nil {
		rec.Eval(1)
		if p := c33RunDec(*only); p != "" {
			rec.Violation("decrypt|"+only.Fn+"|"+only.Class+"|panic", "panic: "+p, only)
		}
		return
	}
	r := kit.SubRand(kit.Seed(), "C33/decrypt")
	fns := []string{"DecryptECB", "decrypt", "decrypt.b64", "Namespace.Decrypt", "EncryptECB"}
	keyLens := []int{0, 1, 15, 16, 17, 24, 31, 32, 33, 64}
	run := func(class string, key, data []byte) {
		for _, fn := range fns {
			c := c33Dec{Part: "decrypt", Fn: fn, KeyHex: hex.EncodeToString(key), Data: hex.EncodeToString(data), Class: class}
			rec.Eval(1)
			rec.Count("decrypt.calls", 1)
			rec.Nontrivial(fmt.Sprintf("dec|%s|%s|k%d|d%d", fn, class, len(key), len(data)%64))
			if p := c33RunDec(c); p != "" {
				rec.Violation("decrypt|"+fn+"|"+class+"|panic", fmt.Sprintf("%s panicked on %d data bytes with a %d byte key: %s", fn, len(data), len(key), p), c)
			}
		}
	}
	// boundary grid: the byte that pkcs5UnPadding reads as the padding length takes every
	// interesting value for data of 1..4 blocks (built with the real block cipher, so the
	// decrypted last byte is exactly the chosen one)
	for _, kl := range []int{16, 24, 32} {
		key := r.Bytes(kl)
		blk, _ := aes.NewCipher(key)
		for blocks := 1; blocks <= 4; blocks++ {
			for _, last := range []int{0, 1, 2, 15, 16, 17, 31, 32, 33, 47, 48, 49, 63, 64, 65, 127, 128, 254, 255} {
				plain := r.Bytes(blocks * 16)
				plain[len(plain)-1] = byte(last)
				ct := make([]byte, len(plain))
				for o := 0; o < len(plain); o += 16 {
					blk.Encrypt(ct[o:o+16], plain[o:o+16])
				}
				run(fmt.Sprintf("lastbyte%d", last), key, ct)
			}
		}
	}
	total := kit.N(4000, 60000)
	for i := 0; i < total; i++ {
		kl := keyLens[r.Intn(len(keyLens))]
		key := r.Bytes(kl)
		var data []byte
		class := ""
		switch r.Intn(5) {
		case 0:
			class, data = "random", r.Bytes(r.Intn(100))
		case 1:
			class, data = "blocks", r.Bytes(16*r.Intn(6))
		case 2: // valid ciphertext, wrong key
			class = "wrongkey"
			ct, err := crypto.EncryptECB(string(r.Bytes(16)), r.Bytes(r.Intn(50)))
			if err == nil {
				data = ct
			}
		case 3: // truncated valid ciphertext
			class = "truncated"
			k := r.Bytes(16)
			key = k
			ct, _ := crypto.EncryptECB(string(k), r.Bytes(r.Intn(50)))
			if len(ct) > 0 {
				data = ct[:r.Intn(len(ct))]
			}
		case 4:
			class, data = "printable", []byte(strings.Repeat("=A/+", r.Intn(20)))
		}
		run(class, key, data)
	}
}

// ======================================================================================
// (c) containment of the local client under strace
// ======================================================================================

// c33Op is one operation of the path workload.
type c33Op struct {
	Part   string `json:"part"` // "path"
	Op     string `json:"op"`
	Prefix string `json:"prefix"`
	Path   string `json:"path"` // path for client-level ops, namespace name for store-level ops
}

var c33ClientOps = []string{"Create", "Update", "Delete", "Read", "List", "ListWithValues", "Clean", "FullNamespacePath"}
var c33StoreOps = []string{"Store.UpdateNamespace", "Store.LoadNamespace", "Store.LoadOriginNamespace", "Store.DelNamespace"}
var c33Prefixes = []string{"", "/", "/gaea", "gaea/x", "..", "/.."}

func c33HostileNames() []string {
	long := strings.Repeat("a", 300)
	names := []string{"..", "../x", "a/../../x", "/abs/x", "/", ".", "", "%2e%2e", "%2e%2e/x", "..%2fx", "a\x00b", "\x00", "../\x00",
		long, strings.Repeat("b", 1100), strings.Repeat("c/", 600), "a/" + long, "....//x", "..\\x", "a/./../..", "./..", ".. ", " ..", "../",
		"..//", "x/../..", "x/../../", "~", "~/x", "-rf", "*", "?", "a|b", "<x>", "\"q\"", "a\nb", "\u202e..", "..\u2215x", "a/..", "a/b/../..",
		"./", "//", "/..", "/../..", "/../x", "/./.", "a//..//..//x", "...", ".../x", "..a", "a..", "../../../../../../../../etc/passwd", "/etc/passwd",
		"namespace", "namespace/..", "../namespace", "x.json", "../store", "../store.json", "../canary", "store/../../canary"}
	return names
}

// c33Components: alphabet of the structured path space (sequences up to length 4, with or
// without a leading and a trailing slash).
var c33Components = []string{"..", ".", "a", "", "b.json", "%2e%2e", "..."}

func c33PathSpace(r *kit.Rand, sample int) []string {
	var out []string
	var rec func(prefix []string, depth int)
	rec = func(cur []string, depth int) {
		if len(cur) > 0 {
			j := strings.Join(cur, "/")
			out = append(out, j, "/"+j, j+"/", "/"+j+"/")
		}
		if depth == 4 {
			return
		}
		for _, c := range c33Components {
			rec(append(append([]string{}, cur...), c), depth+1)
		}
	}
	rec(nil, 0)
	if sample <= 0 || sample >= len(out) {
		return out
	}
	perm := r.Perm(len(out))
	var s []string
	for i := 0; i < sample; i++ {
		s = append(s, out[perm[i]])
	}
	return s
}

func c33Workload() []c33Op {
	r := kit.SubRand(kit.Seed(), "C33/paths")
	var ops []c33Op
	add := func(paths []string, prefixes []string, full bool) {
		for _, p := range paths {
			for _, pre := range prefixes {
				if full {
					for _, op := range c33ClientOps {
						ops = append(ops, c33Op{Part: "path", Op: op, Prefix: pre, Path: p})
					}
					for _, op := range c33StoreOps {
						ops = append(ops, c33Op{Part: "path", Op: op, Prefix: pre, Path: p})
					}
				} else {
					op := c33ClientOps[r.Intn(len(c33ClientOps))]
					if r.Chance(1, 3) {
						op = c33StoreOps[r.Intn(len(c33StoreOps))]
					}
					ops = append(ops, c33Op{Part: "path", Op: op, Prefix: pre, Path: p})
				}
			}
		}
	}
	if kit.Tier() == "thorough" {
		add(c33HostileNames(), c33Prefixes, true)
		add(c33PathSpace(r, 0), []string{"", "/gaea"}, false)
		add(c33PathSpace(r, 3000), []string{"/", "..", "gaea/x", "/.."}, false)
	} else {
		add(c33HostileNames(), []string{"", "/gaea"}, true)
		add(c33HostileNames(), []string{"/", "..", "gaea/x", "/.."}, false)
		add(c33PathSpace(r, 150), c33Prefixes, false)
	}
	return ops
}

const c33Marker = "/c33_marker_"

// c33ChildMain runs the workload read from C33_OPS inside the traced process. Every
// operation is bracketed by stat() calls on marker paths, which show up in the trace.
func c33ChildMain() {
	log.SetGlobalLogger(c33NullLog{})
	storage := os.Getenv("C33_STORAGE")
	b, err := ioutil.ReadFile(os.Getenv("C33_OPS"))
	if err != nil {
		fmt.Println("C33CHILD-ERROR", err)
		os.Exit(3)
	}
	var ops []c33Op
	if err := json.Unmarshal(b, &ops); err != nil {
		fmt.Println("C33CHILD-ERROR", err)
		os.Exit(3)
	}
	w := bufio.NewWriter(os.Stdout)
	for i, op := range ops {
		os.Stat(c33Marker + "begin_" + strconv.Itoa(i))
		res := c33DoOp(storage, op)
		os.Stat(c33Marker + "end_" + strconv.Itoa(i))
		fmt.Fprintf(w, "C33OP %d %s\n", i, strconv.Quote(res))
	}
	w.Flush()
	fmt.Println("C33CHILD-DONE", len(ops))
	os.Exit(0)
}

func c33DoOp(storage string, op c33Op) (res string) {
	defer func() {
		if p := recover(); p != nil {
			res = "panic: " + fmt.Sprint(p)
		}
	}()
	lc, err := NewLocalClient(storage, op.Prefix)
	if err != nil {
		return "newclient-error: " + err.Error()
	}
	data := []byte(`{"verif":"c33"}`)
	e := func(err error) string {
		if err != nil {
			return "error"
		}
		return "ok"
	}
	switch op.Op {
	case "Create":
		return e(lc.Create(op.Path, data))
	case "Update":
		return e(lc.Update(op.Path, data))
	case "Delete":
		return e(lc.Delete(op.Path))
	case "Read":
		_, err := lc.Read(op.Path)
		return e(err)
	case "List":
		_, err := lc.List(op.Path)
		return e(err)
	case "ListWithValues":
		_, err := lc.ListWithValues(op.Path)
		return e(err)
	case "Clean":
		return e(lc.Clean(op.Path))
	case "FullNamespacePath":
		p, err := lc.FullNamespacePath(op.Path)
		if err != nil {
			return "error"
		}
		return "ok:" + p
	}
	st := NewStore(lc)
	switch op.Op {
	case "Store.UpdateNamespace":
		return e(st.UpdateNamespace(&Namespace{Name: op.Path, AllowedDBS: map[string]bool{"d": true}}))
	case "Store.LoadNamespace":
		_, err := st.LoadNamespace("1234abcd5678efg*", op.Path)
		return e(err)
	case "Store.LoadOriginNamespace":
		_, err := st.LoadOriginNamespace(op.Path)
		return e(err)
	case "Store.DelNamespace":
		return e(st.DelNamespace(op.Path))
	}
	return "unknown-op"
}

var c33LineRe = regexp.MustCompile(`^(\d+)\s+(?:<\.\.\. )?(\w+)(?:\(| resumed>)(.*)$`)
var c33StrRe = regexp.MustCompile(`"((?:[^"\\]|\\.)*)"(\.\.\.)?`)

// c33Access is one path touched by a traced syscall.
type c33Access struct {
	Syscall string
	Path    string
	Write   bool
	Line    string
}

func c33Unquote(s string) string {
	if u, err := strconv.Unquote(`"` + s + `"`); err == nil {
		return u
	}
	return s
}

// c33ParseLine extracts the path arguments of a %file syscall line of strace.
func c33ParseLine(line, cwd string) []c33Access {
	m := c33LineRe.FindStringSubmatch(line)
	if m == nil {
		return nil
	}
	sc, args := m[2], m[3]
	if strings.Contains(line, " resumed>") {
		return nil // the arguments were printed on the "<unfinished ...>" line
	}
	strs := c33StrRe.FindAllStringSubmatch(args, -1)
	if len(strs) == 0 {
		return nil
	}
	if strs[0][1] == "" && strings.Contains(args, "AT_EMPTY_PATH") {
		return nil // fstat-style call on an already open descriptor
	}
	if len(args) > 0 && args[0] >= '0' && args[0] <= '9' && !strings.HasPrefix(strs[0][1], "/") {
		// relative to an open directory descriptor: not resolvable from the line alone
		return []c33Access{{Syscall: sc, Path: "<dirfd>/" + c33Unquote(strs[0][1]), Write: true, Line: line}}
	}
	abs := func(p string) string {
		p = c33Unquote(p)
		if !filepath.IsAbs(p) {
			p = filepath.Join(cwd, p)
		}
		return filepath.Clean(p)
	}
	write := false
	n := 1
	switch sc {
	case "open", "openat", "openat2", "creat":
		write = strings.Contains(args, "O_WRONLY") || strings.Contains(args, "O_RDWR") || strings.Contains(args, "O_CREAT") ||
			strings.Contains(args, "O_TRUNC") || strings.Contains(args, "O_APPEND") || sc == "creat"
	case "mkdir", "mkdirat", "unlink", "unlinkat", "rmdir", "chmod", "fchmodat", "chown", "fchownat", "lchown", "truncate", "utimensat", "utime", "utimes", "mknod", "mknodat", "setxattr", "removexattr":
		write = true
	case "rename", "renameat", "renameat2", "link", "linkat", "symlink", "symlinkat":
		write = true
		n = 2
	case "execve":
		return nil
	}
	var out []c33Access
	for i := 0; i < n && i < len(strs); i++ {
		out = append(out, c33Access{Syscall: sc, Path: abs(strs[i][1]), Write: write, Line: line})
	}
	return out
}

func c33Under(p, dir string) bool {
	return p == dir || strings.HasPrefix(p, dir+"/")
}

// c33PathClass classifies a hostile path by what filepath.Clean makes of it (the structured
// feature the signature uses, never the text itself).
func c33PathClass(op c33Op) string {
	p := op.Path
	if strings.HasPrefix(op.Op, "Store.") {
		p = filepath.Join(op.Prefix, "namespace", op.Path)
	}
	if p == "" {
		return "empty"
	}
	if filepath.IsAbs(p) {
		if r, err := filepath.Rel("/", p); err == nil {
			p = r
		}
	}
	c := filepath.Clean(p)
	switch {
	case c == ".":
		return "cleans-to-dot"
	case c == ".." || strings.HasPrefix(c, "../"):
		return "cleans-to-dotdot"
	case strings.Contains(c, "\x00"):
		return "nul"
	case len(c) > 255:
		return "long"
	}
	return "inside"
}

func c33Lands(p, storage string) string {
	switch {
	case c33Under(p, storage):
		return "inside"
	case strings.HasPrefix(p, storage):
		return "storage-dir-name+suffix"
	case c33Under(p, filepath.Dir(storage)):
		return "beside-storage"
	case c33Under(storage, p):
		return "ancestor"
	}
	return "elsewhere"
}

func c33Paths(rec *kit.Rec, only *c33Op) {
	ops := c33Workload()
	if only != nil {
		ops = []c33Op{*only}
	}
	root, err := ioutil.TempDir("", "c33p_")
	if err != nil {
		rec.Inconclusive("temp dir: " + err.Error())
		return
	}
	defer os.RemoveAll(root)
	root, _ = filepath.EvalSymlinks(root)
	// two spare levels, so that an escape a few ".." up still lands inside the directory
	// this monitor removes
	base := filepath.Join(root, "l1", "l2")
	os.MkdirAll(base, 0o755)
	storage := filepath.Join(base, "area", "store")
	cwd := filepath.Join(base, "cwd")
	os.MkdirAll(filepath.Dir(storage), 0o755)
	os.MkdirAll(cwd, 0o755)
	// canaries beside the storage directory (and beside its parent), with the names an escape
	// would most plausibly hit
	canaries := map[string]string{}
	for _, rel := range []string{"area/store.json", "area/canary", "area/canary.json", "area/x", "area/x.json", "area/namespace.json", "area/.json", "area/..json",
		"area/gaea.json", "area/sibling/namespace/x.json", "canary", "canary.json", "area.json", "x.json", "cwd/canary.json", "cwd/x.json"} {
		p := filepath.Join(base, rel)
		os.MkdirAll(filepath.Dir(p), 0o755)
		content := "canary:" + rel
		if err := ioutil.WriteFile(p, []byte(content), 0o644); err != nil {
			rec.Inconclusive("canary: " + err.Error())
			return
		}
		canaries[p] = content
	}
	listing := func() []string {
		var out []string
		filepath.Walk(base, func(p string, info os.FileInfo, err error) error {
			if err == nil && !c33Under(p, storage) {
				out = append(out, p)
			}
			return nil
		})
		sort.Strings(out)
		return out
	}
	os.MkdirAll(storage, 0o755)
	before := listing()
	opsFile := filepath.Join(base, "ops.json")
	ob, _ := json.Marshal(ops)
	ioutil.WriteFile(opsFile, ob, 0o644)
	trace := filepath.Join(base, "trace.txt")
	before = append(before, opsFile, trace)
	sort.Strings(before)

	straceBin, err := exec.LookPath("strace")
	if err != nil {
		rec.Inconclusive("strace is not installed")
		return
	}
	cmd := exec.Command(straceBin, "-f", "-qq", "-s", "8192", "-e", "trace=%file", "-o", trace, os.Args[0], "-test.run", "^TestVerif_C33$", "-test.count=1", "-test.timeout=0")
	cmd.Env = append(os.Environ(), "C33_CHILD=1", "C33_STORAGE="+storage, "C33_OPS="+opsFile)
	cmd.Dir = cwd
	var stdout bytes.Buffer
	cmd.Stdout = &stdout
	cmd.Stderr = &stdout
	done := make(chan error, 1)
	if err := cmd.Start(); err != nil {
		rec.Inconclusive("cannot start strace: " + err.Error())
		return
	}
	go func() { done <- cmd.Wait() }()
	select {
	case err = <-done:
	case <-time.After(30 * time.Minute): // watchdog only
		cmd.Process.Kill()
		rec.Inconclusive("traced child did not finish within 30 minutes")
		return
	}
	if !strings.Contains(stdout.String(), fmt.Sprintf("C33CHILD-DONE %d", len(ops))) {
		tail := stdout.String()
		if len(tail) > 600 {
			tail = tail[len(tail)-600:]
		}
		rec.Inconclusive(fmt.Sprintf("traced child did not complete the workload (err %v): %s", err, tail))
		return
	}
	results := map[int]string{}
	for _, ln := range strings.Split(stdout.String(), "\n") {
		if strings.HasPrefix(ln, "C33OP ") {
			f := strings.SplitN(ln, " ", 3)
			if i, err := strconv.Atoi(f[1]); err == nil && len(f) == 3 {
				results[i], _ = strconv.Unquote(f[2])
			}
		}
	}

	// ---- walk the trace ----
	tf, err := os.Open(trace)
	if err != nil {
		rec.Inconclusive("no trace: " + err.Error())
		return
	}
	defer tf.Close()
	sc := bufio.NewScanner(tf)
	sc.Buffer(make([]byte, 1<<22), 1<<22)
	cur := -1
	seenOps, accesses, markers := 0, 0, 0
	type esc struct {
		op  int
		acc c33Access
	}
	var escapes []esc
	perOp := map[int]int{}
	for sc.Scan() {
		line := sc.Text()
		if i := strings.Index(line, c33Marker); i >= 0 {
			rest := line[i+len(c33Marker):]
			if strings.HasPrefix(rest, "begin_") {
				n, _ := strconv.Atoi(strings.SplitN(rest[len("begin_"):], "\"", 2)[0])
				cur = n
				seenOps++
			} else if strings.HasPrefix(rest, "end_") {
				cur = -1
			}
			markers++
			continue
		}
		if cur < 0 {
			continue // start-up and shut-down of the Go runtime / test binary, not the local client
		}
		for _, a := range c33ParseLine(line, cwd) {
			accesses++
			perOp[cur]++
			if c33Under(a.Path, storage) {
				continue
			}
			if c33Under(storage, a.Path) && (a.Syscall == "mkdirat" || a.Syscall == "mkdir" || !a.Write) {
				continue // creating / examining the ancestors of the storage directory itself
			}
			if !a.Write && (strings.HasPrefix(a.Path, "/proc/") || strings.HasPrefix(a.Path, "/sys/") || strings.HasPrefix(a.Path, "/etc/localtime") || strings.HasPrefix(a.Path, "/usr/share/zoneinfo")) {
				continue // Go runtime / time zone look-ups
			}
			escapes = append(escapes, esc{cur, a})
		}
	}
	rec.Count("paths.ops", int64(len(ops)))
	rec.Count("paths.ops_seen_in_trace", int64(seenOps))
	rec.Count("paths.markers", int64(markers))
	rec.Count("paths.fs_accesses_attributed", int64(accesses))
	if seenOps != len(ops) || accesses == 0 {
		rec.Inconclusive(fmt.Sprintf("trace incomplete: %d of %d operations seen, %d accesses", seenOps, len(ops), accesses))
		return
	}
	for i, op := range ops {
		rec.Eval(1)
		cls := c33PathClass(op)
		rec.Count("paths.class."+cls, 1)
		rec.Count("paths.result."+strings.SplitN(results[i], ":", 2)[0], 1)
		if perOp[i] > 0 {
			rec.Nontrivial("path|" + op.Op + "|" + op.Prefix + "|" + cls + "|" + strings.SplitN(results[i], ":", 2)[0])
		}
		if i%211 == 0 {
			rec.Sample(map[string]interface{}{"op": op, "result": results[i], "fs_accesses": perOp[i], "class": cls})
		}
		if strings.HasPrefix(results[i], "panic") {
			rec.Violation("path|"+op.Op+"|"+cls+"|panic", fmt.Sprintf("%s(%q) with prefix %q panicked: %s", op.Op, op.Path, op.Prefix, results[i]), op)
		}
		// FullNamespacePath is pure: its answer itself must lie in the storage directory
		if op.Op == "FullNamespacePath" && strings.HasPrefix(results[i], "ok:") {
			if p := filepath.Clean(results[i][3:]); !c33Under(p, storage) {
				rec.Violation("path|FullNamespacePath|"+cls+"|returns:"+c33Lands(p, storage),
					fmt.Sprintf("FullNamespacePath(%q) with prefix %q returned %q, outside the storage directory %q", op.Path, op.Prefix, p, storage), op)
			}
		}
	}
	for _, e := range escapes {
		op := ops[e.op]
		kind := "read"
		if e.acc.Write {
			kind = "write"
		}
		rec.Count("paths.escapes."+kind, 1)
		rec.Violation("path|"+op.Op+"|"+c33PathClass(op)+"|"+kind+":"+c33Lands(e.acc.Path, storage),
			fmt.Sprintf("%s(%q) with prefix %q made the file-system call %s on %q, outside the storage directory %q (%s)", op.Op, op.Path, op.Prefix, e.acc.Syscall, e.acc.Path, storage, kind), op)
	}
	// ---- canaries and the neighbourhood ----
	for p, content := range canaries {
		b, err := ioutil.ReadFile(p)
		if err != nil || string(b) != content {
			rec.Count("paths.canaries_touched", 1)
			rec.Violation("path|canary|"+c33Lands(p, storage), fmt.Sprintf("canary %q beside the storage directory was modified or removed (now %q, err %v)", p, string(b), err), map[string]string{"canary": p})
		}
	}
	after := listing()
	if strings.Join(after, "\n") != strings.Join(before, "\n") {
		extra := []string{}
		bm := map[string]bool{}
		for _, p := range before {
			bm[p] = true
		}
		for _, p := range after {
			if !bm[p] {
				extra = append(extra, p)
			}
		}
		if len(extra) > 0 {
			rec.Violation("path|neighbourhood|new-entries", fmt.Sprintf("new file-system entries outside the storage directory: %v", extra), extra)
		}
	}
	rec.Count("paths.canaries", int64(len(canaries)))
}

// ======================================================================================

func TestVerif_C33(t *testing.T) {
	if os.Getenv("C33_CHILD") != "" {
		c33ChildMain()
		return
	}
	rec := kit.Start("C33", "exploration",
		"(a) configs = name class (9) x credential class (14) grid walked systematically, rich/minimal document, 1 or several users and slices, key length 16/24/32 and invalid, other fields drawn from the seed; "+
			"stored through the real Store into the real LocalClient and the real etcd v2 client (fake etcd server), loaded back by LoadNamespace, LoadNamespaces, LoadOriginNamespace(s)+local copy+DecryptNamespaces; "+
			"non-trivial = stored and loaded back, key = (name class, credential class, key length, rich, many). "+
			"(b) decrypt/DecryptECB/Namespace.Decrypt/EncryptECB on a padding-length-byte boundary grid and seeded random/wrong-key/truncated data, key = (function, class, key length, data length mod 64). "+
			"(c) LocalClient and Store operations on a fixed list of hostile names plus the space of <=4 components from {.., ., a, empty, b.json, %2e%2e, ...} with optional leading/trailing slash, "+
			"x 6 prefixes, run in a child under strace -f -e trace=%file; non-trivial = the operation reached the file system, key = (operation, prefix, path class, result)")
	defer rec.Finish(t)
	rec.Assume("fields other than user names and passwords are valid UTF-8 (JSON cannot carry anything else); credentials are arbitrary bytes")
	rec.Assume("is_encrypt is a storage flag and not part of the configuration that must round-trip")
	rec.Assume("a store that refuses a name with an error (LocalClient refuses <>\"|?* and paths over 1024 bytes) does not violate the round trip; silently losing or changing the document does")
	rec.Assume("etcd is a protocol-level fake of the v2 keys API; the real coreos client and Gaea's wrapper are used unchanged")
	rec.Assume("containment is judged on the %file system calls strace attributes to an operation (between its two marker stat calls); symbolic links inside the storage directory are out of scope")
	log.SetGlobalLogger(c33NullLog{})

	if p := kit.ReplayPath(); p != "" {
		var probe struct {
			Part string         `json:"part"`
			Case *c33RT         `json:"case"`
			X    map[string]int `json:"-"`
		}
		if err := kit.LoadReplay(p, &probe); err != nil {
			rec.Inconclusive("cannot load replay: " + err.Error())
			return
		}
		switch {
		case probe.Case != nil && probe.Case.Part == "sync":
			// a witness of part b (proxy/server); this part runs its plain baseline case
			c33RoundTrip(rec, &c33RT{Part: "roundtrip", State: 1, NameCls: "plain", CredCls: "ascii", KeyLen: 16, Etcd: true})
		case probe.Case != nil:
			c33RoundTrip(rec, probe.Case)
		case probe.Part == "decrypt":
			var c c33Dec
			kit.LoadReplay(p, &c)
			c33Decrypt(rec, &c)
		case probe.Part == "path":
			var c c33Op
			kit.LoadReplay(p, &c)
			c33Paths(rec, &c)
		default:
			rec.Inconclusive("replay file is not a C33 case")
		}
		return
	}
	t0 := time.Now()
	c33RoundTrip(rec, nil)
	rec.Set("info_wall_roundtrip_s", time.Since(t0).Seconds())
	t0 = time.Now()
	c33Decrypt(rec, nil)
	rec.Set("info_wall_decrypt_s", time.Since(t0).Seconds())
	t0 = time.Now()
	c33Paths(rec, nil)
	rec.Set("info_wall_paths_s", time.Since(t0).Seconds())
}
