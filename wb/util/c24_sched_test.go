package util

// C24 — systematic one-preemption exploration. A scenario builds a real pool, brings it into
// one of a few start states, parks operation A at step point p (k-th occurrence) through a
// gate in the step callback, runs operation B until it is finished or provably blocked
// (goroutine-state quiescence), releases A, drains and checks the oracles.

import (
	"context"
	"fmt"
	"sync"
	"sync/atomic"
)

// c24Case is the replayable description of one evaluated case.
type c24Case struct {
	Kind   string      `json:"kind"` // "pair" or "stress"
	Cap    int         `json:"cap"`
	Max    int         `json:"max"`
	Setup  string      `json:"setup,omitempty"`
	First  string      `json:"first,omitempty"`
	Point  string      `json:"point,omitempty"` // "-" = no preemption (A then B sequentially)
	Occ    int         `json:"occ,omitempty"`
	Second string      `json:"second,omitempty"`
	Tgt    string      `json:"tgt,omitempty"` // SetCapacity target: "far" (max / 1) or "near" (base±1)
	Stress *c24Stress  `json:"stress,omitempty"`
	Obs    *c24Outcome `json:"observed,omitempty"`
}

type c24Outcome struct {
	Parked     bool         `json:"parked"`
	SecondDone bool         `json:"second_ran_to_completion"`
	Findings   []c24Finding `json:"findings,omitempty"`
	History    []c24Ev      `json:"history,omitempty"`
	Holds      []c24Hold    `json:"holds,omitempty"`
	Steps      []string     `json:"steps,omitempty"`
}

var c24Ops = []string{"get", "put", "putnil", "closeIdle", "scaleIn", "capUp", "capDown", "close"}

// step points each operation can reach ("-" = run without preemption). "scale.beforeCAS"
// (between the read of the capacity and its compare-and-swap in ScaleCapacity) does not exist
// in the tree yet: scenarios naming it simply do not park; they become effective as soon as
// the step point is added (requested in the report: it is what distinguishes the CAS loop
// from a plain Set).
var c24Points = map[string][]string{
	"get":       {"-", "get.received", "get.beforeAccounting", "addCapacity.checked"},
	"put":       {"-", "put.beforeSend", "put.afterSend"},
	"putnil":    {"-", "put.beforeSend", "put.afterSend"},
	"closeIdle": {"-", "closeIdle.taken"},
	"scaleIn":   {"-", "scaleIn.beforeScale", "scale.beforeCAS", "scale.afterCAS", "scale.shrinkLoop"},
	"capUp":     {"-", "scale.beforeCAS", "scale.afterCAS", "scale.growLoop", "scale.shrinkLoop"},
	"capDown":   {"-"},
	"close":     {"-", "scale.beforeCAS", "scale.afterCAS", "scale.shrinkLoop", "scale.beforeClose"},
}

var c24LoopPoint = map[string]bool{"closeIdle.taken": true, "scale.shrinkLoop": true, "scale.growLoop": true}

var c24Setups = []string{"fresh", "warm", "exhausted", "scaledout", "full"}

// ---------------------------------------------------------------------------------------
// step controller of the systematic part

type c24Ctl struct {
	mu         sync.Mutex
	armed      bool
	point      string
	occ        int
	seen       int
	parked     bool
	parkedGid  int64
	gate       chan struct{}
	holdOthers bool
	others     chan struct{}
	steps      []string
}

var c24CurCtl atomic.Value // *c24Ctl (possibly nil pointer)

func c24SysStep(name string) {
	c, _ := c24CurCtl.Load().(*c24Ctl)
	if c == nil {
		return
	}
	c.mu.Lock()
	if len(c.steps) < 64 {
		c.steps = append(c.steps, name)
	}
	if c.armed && name == c.point {
		c.seen++
		if c.seen == c.occ {
			c.armed = false
			c.parked = true
			c.parkedGid = c24Gid()
			g := c.gate
			c.mu.Unlock()
			<-g
			return
		}
	}
	if c.holdOthers && c24Gid() != c.parkedGid {
		g := c.others
		c.mu.Unlock()
		<-g
		return
	}
	c.mu.Unlock()
}

func (c *c24Ctl) isParked() bool {
	c.mu.Lock()
	defer c.mu.Unlock()
	return c.parked
}

// ---------------------------------------------------------------------------------------

type c24OpRun struct {
	kind   string
	g      int
	done   int32
	cancel context.CancelFunc
}

func (o *c24OpRun) isDone() bool { return o == nil || atomic.LoadInt32(&o.done) == 1 }

type c24Sys struct {
	self  int64
	incon string
	// coverage
	parkedN, feasibleN, infeasibleN, unreachedN int64
	stepCount                                   map[string]int64
}

func (s *c24Sys) quiet() bool {
	if s.incon != "" {
		return false
	}
	if !c24Quiet(s.self) {
		s.incon = "quiescence not reached within the watchdog"
		return false
	}
	return true
}

func c24Target(kind, tgt string, w *c24World) int {
	base := int(w.rp.baseCapacity.Get())
	if kind == "capUp" {
		if tgt == "near" && base+1 <= w.max {
			return base + 1
		}
		return w.max
	}
	if tgt == "near" && base-1 >= 1 {
		return base - 1
	}
	return 1
}

// start launches one operation of the pair on its own goroutine.
func (s *c24Sys) start(w *c24World, c c24Case, kind string, g int, h *c24Hold) *c24OpRun {
	o := &c24OpRun{kind: kind, g: g}
	ctx, cancel := context.WithCancel(context.Background())
	o.cancel = cancel
	target := 0
	if kind == "capUp" || kind == "capDown" {
		target = c24Target(kind, c.Tgt, w)
	}
	go c24RunOp(w, o, ctx, h, target)
	return o
}

func c24RunOp(w *c24World, o *c24OpRun, ctx context.Context, h *c24Hold, target int) {
	defer atomic.StoreInt32(&o.done, 1)
	switch o.kind {
	case "get":
		w.doGet(o.g, ctx)
	case "put":
		w.doPut(o.g, h, false)
	case "putnil":
		w.doPut(o.g, h, true)
	default:
		w.doAdmin(o.g, o.kind, target)
	}
}

func c24NeedsHold(kind string) int {
	if kind == "put" || kind == "putnil" {
		return 1
	}
	return 0
}

// setup brings the fresh pool into the start state, leaving `need` holds outstanding (more
// for the exhausted/full states). Runs sequentially on the caller. Returns false when the
// state cannot be built with this capacity (case skipped).
func (s *c24Sys) setup(w *c24World, c c24Case, need int) bool {
	ctx := context.Background()
	get := func() bool { h, _ := w.doGet(0, ctx); return h != nil }
	if need > w.max {
		return false
	}
	switch c.Setup {
	case "fresh":
	case "warm":
		for i := 0; i < w.cap0; i++ {
			if !get() {
				return false
			}
		}
		for _, h := range w.outstanding() {
			w.doPut(0, h, false)
		}
	case "exhausted":
		for i := 0; i < w.cap0; i++ {
			if !get() {
				return false
			}
		}
	case "scaledout":
		if w.cap0 >= w.max {
			return false
		}
		for i := 0; i < w.cap0+1; i++ {
			if !get() {
				return false
			}
		}
		hs := w.outstanding()
		for i := 0; i < len(hs)-need; i++ {
			w.doPut(0, hs[i], false)
		}
	case "full":
		for i := 0; i < w.max; i++ {
			if !get() {
				return false
			}
		}
	}
	for len(w.outstanding()) < need {
		if !get() {
			return false
		}
	}
	w.rp.lock.Lock()
	w.rp.scaleOutTime -= 1000
	w.rp.lock.Unlock()
	return true
}

// runPair executes one scenario. It returns nil when the case does not exist for this
// capacity/state (nothing evaluated).
func (s *c24Sys) runPair(c c24Case) *c24Outcome {
	w, err := c24NewWorld(c.Cap, c.Max)
	if err != nil {
		return nil
	}
	f := &c24Findings{}
	out := &c24Outcome{}
	need := c24NeedsHold(c.First) + c24NeedsHold(c.Second)
	c24CurCtl.Store((*c24Ctl)(nil))
	if !s.setup(w, c, need) {
		for _, h := range w.outstanding() {
			w.doPut(0, h, false)
		}
		s.teardown(w, nil)
		return nil
	}
	w.barrier("after setup", f)
	hs := w.outstanding()
	var hA, hB *c24Hold
	if c24NeedsHold(c.First) == 1 {
		hA, hs = hs[0], hs[1:]
	}
	if c24NeedsHold(c.Second) == 1 {
		hB = hs[0]
	}

	s.quiet()
	baseWorkers := c24Workers // leftovers of earlier (violating) scenarios, normally 0
	ctl := &c24Ctl{gate: make(chan struct{}), others: make(chan struct{})}
	if c.Point != "-" {
		ctl.armed, ctl.point, ctl.occ = true, c.Point, c.Occ
	}
	c24CurCtl.Store(ctl)

	opA := s.start(w, c, c.First, 1, hA)
	s.quiet()
	var opB *c24OpRun
	out.Parked = ctl.isParked()
	if out.Parked {
		opB = s.start(w, c, c.Second, 2, hB)
		s.quiet()
		out.SecondDone = opB.isDone()
		if !out.SecondDone {
			// B is provably blocked behind A: this order is infeasible. Let A finish first,
			// holding B at its next step so that the continuation is one fixed schedule.
			ctl.mu.Lock()
			ctl.holdOthers = true
			ctl.mu.Unlock()
		}
		close(ctl.gate)
		s.quiet()
		ctl.mu.Lock()
		ctl.holdOthers = false
		ctl.mu.Unlock()
		close(ctl.others)
		s.quiet()
	} else {
		ctl.mu.Lock()
		ctl.armed = false
		ctl.mu.Unlock()
		if c.Point == "-" {
			// sequential pair: A (as far as it gets), then B
			opB = s.start(w, c, c.Second, 2, hB)
			s.quiet()
			out.SecondDone = opB.isDone()
		}
	}
	ops := []*c24OpRun{opA, opB}
	// valid right after a quiet(): also the goroutine spawned by a scale-in tick must be gone
	allDone := func() bool { return opA.isDone() && opB.isDone() && c24Workers <= baseWorkers }
	if allDone() && s.incon == "" {
		w.barrier("after the pair", f)
	}
	// drain: give up waiting gets, return everything that is held
	for _, o := range ops {
		if o != nil && !o.isDone() && o.kind == "get" {
			o.cancel()
		}
	}
	s.quiet()
	for _, h := range w.outstanding() {
		w.doPut(0, h, false)
		s.quiet()
	}
	for _, h := range w.outstanding() { // holds acquired meanwhile by a late get
		w.doPut(0, h, false)
		s.quiet()
	}
	if s.incon == "" {
		if !allDone() {
			for _, o := range ops {
				if o != nil && !o.isDone() {
					f.add("hang", fmt.Sprintf("%s never finished although every resource was returned and no other operation runs", o.kind))
				}
			}
			if c24Workers > baseWorkers {
				f.add("hang", "the scale-in goroutine never finished although every resource was returned and no other operation runs")
			}
		} else {
			w.barrier("after drain", f)
		}
	}
	s.teardown(w, f)
	w.historyOracles(f, s.incon == "")
	for _, o := range ops {
		if o != nil {
			o.cancel()
		}
	}
	if !allDone() {
		c24Unwedge(w, s.self, allDone)
	}
	c24CurCtl.Store((*c24Ctl)(nil))
	ctl.mu.Lock()
	out.Steps = append([]string(nil), ctl.steps...)
	ctl.mu.Unlock()
	out.Findings = f.all()
	w.mu.Lock()
	out.History = append([]c24Ev(nil), w.hist...)
	for _, h := range w.holds {
		out.Holds = append(out.Holds, *h)
	}
	w.mu.Unlock()
	return out
}

// teardown closes the pool (final Close of every run) and checks the closed state.
func (s *c24Sys) teardown(w *c24World, f *c24Findings) {
	o := &c24OpRun{kind: "close", g: 9}
	_, cancel := context.WithCancel(context.Background())
	o.cancel = cancel
	go c24RunOp(w, o, nil, nil, 0)
	s.quiet()
	if f == nil || s.incon != "" {
		if !o.isDone() {
			c24Unwedge(w, s.self, o.isDone)
		}
		return
	}
	if !o.isDone() {
		f.add("hang", "final Close never finished although every resource was returned")
		c24Unwedge(w, s.self, o.isDone)
		return
	}
	rp := w.rp
	if rp.capacity.Get() != 0 || rp.inUse.Get() != 0 || rp.available.Get() != 0 || len(rp.resources) != 0 {
		f.add("q.closed", fmt.Sprintf("after Close: capacity=%d inUse=%d available=%d len(resources)=%d active=%d", rp.capacity.Get(), rp.inUse.Get(), rp.available.Get(), len(rp.resources), rp.active.Get()))
	}
	if a := rp.active.Get(); a != 0 {
		f.add("q.active", fmt.Sprintf("after Close: active=%d", a))
	}
}

func c24Sig(clause, first, point, second string) string {
	return clause + "|" + first + "|" + point + "|" + second
}

// enumerate lists the scenario space of the tier, in a fixed order.
func c24Enumerate(thorough bool) []c24Case {
	type cm struct{ c, m int }
	caps := []cm{{1, 2}, {2, 3}}
	tgts := []string{"far"}
	if thorough {
		caps = nil
		for c := 1; c <= 3; c++ {
			for m := c; m <= 4; m++ {
				caps = append(caps, cm{c, m})
			}
		}
		tgts = []string{"far", "near"}
	}
	var out []c24Case
	for _, k := range caps {
		for _, su := range c24Setups {
			for _, a := range c24Ops {
				for _, p := range c24Points[a] {
					occs := []int{1}
					if c24LoopPoint[p] && thorough {
						occs = []int{1, 2}
					}
					for _, occ := range occs {
						for _, b := range c24Ops {
							for _, tg := range tgts {
								if tg == "near" && a != "capUp" && a != "capDown" && b != "capUp" && b != "capDown" {
									continue
								}
								out = append(out, c24Case{Kind: "pair", Cap: k.c, Max: k.m, Setup: su, First: a, Point: p, Occ: occ, Second: b, Tgt: tg})
							}
						}
					}
				}
			}
		}
	}
	return out
}
