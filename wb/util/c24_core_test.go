package util

// C24 — the connection pool never over-allocates, double-issues or fails a return.
//
// This file: the observed world of one run (real ResourcePool + counting factory), the
// client-boundary history, the goroutine-state quiescence detector and the oracles.
// Every piece of monitor state is either owned by one goroutine or guarded by a mutex /
// atomic; the monitor must itself be clean under -race because its frames sit below
// util/resource_pool.go frames (factory, Resource.Close, step callback).

import (
	"bytes"
	"context"
	"fmt"
	"runtime"
	"sort"
	"strconv"
	"strings"
	"sync"
	"sync/atomic"
	"time"
)

// c24Res is the resource handed out by the factory; the id is unique per world.
type c24Res struct {
	id         int64
	w          *c24World
	closeN     int32 // number of Close calls (atomic)
	closeStamp int64 // stamp of the first Close (atomic)
	byHolder   int32 // 1 when the holder itself closes it (Put(nil) protocol)
}

func (r *c24Res) Close() {
	st := r.w.stamp()
	if atomic.AddInt32(&r.closeN, 1) == 1 {
		atomic.StoreInt64(&r.closeStamp, st)
	}
}

// c24Hold is one acquisition: from the stamp taken after Get returned to the stamp taken
// before Put is called (0 = still held).
type c24Hold struct {
	Seq     int   `json:"seq"`
	Res     int64 `json:"res"`
	G       int   `json:"g"`
	GetRet  int64 `json:"get_ret"`
	PutCall int64 `json:"put_call"`
	res     *c24Res
}

// c24Ev is one client-boundary record.
type c24Ev struct {
	G     int    `json:"g"`
	Op    string `json:"op"`
	Res   int64  `json:"res,omitempty"`
	Call  int64  `json:"call"`
	Ret   int64  `json:"ret"`
	Err   string `json:"err,omitempty"`
	Panic string `json:"panic,omitempty"`
}

type c24World struct {
	rp       *ResourcePool
	cap0     int
	max      int
	clock    int64 // the one atomic counter of all stamps
	nextID   int64
	mu       sync.Mutex
	hist     []c24Ev
	res      []*c24Res
	holds    []*c24Hold // all acquisitions, in order of registration
	out      map[int]*c24Hold
	idleMu   sync.Mutex // timer.Stop semantics of the idle timer: handler excluded from Stop
	idleOff  bool
	capMu    sync.Mutex // same for the scale-in timer
	capOff   bool
	setCapMu sync.Mutex // connectionPoolImpl.SetCapacity serialises SetCapacity under cp.mu
}

func (w *c24World) stamp() int64 { return atomic.AddInt64(&w.clock, 1) }

func c24NewWorld(capacity, max int) (*c24World, error) {
	w := &c24World{cap0: capacity, max: max, out: map[int]*c24Hold{}}
	rp, err := NewResourcePool(w.factory, capacity, max, time.Nanosecond)
	if err != nil {
		return nil, err
	}
	// The two timers are not waited for: their handlers are called directly as operations.
	rp.idleTimer.Stop()
	rp.capTimer.Stop()
	w.rp = rp
	return w, nil
}

func (w *c24World) factory() (Resource, error) {
	r := &c24Res{id: atomic.AddInt64(&w.nextID, 1), w: w}
	w.mu.Lock()
	w.res = append(w.res, r)
	w.mu.Unlock()
	return r, nil
}

func (w *c24World) record(e c24Ev) {
	w.mu.Lock()
	w.hist = append(w.hist, e)
	w.mu.Unlock()
}

func c24PanicText(p interface{}) string {
	if p == nil {
		return ""
	}
	return fmt.Sprint(p)
}

// doGet performs one client Get and records it. A returned hold is registered as outstanding.
func (w *c24World) doGet(g int, ctx context.Context) (h *c24Hold, err error) {
	e := c24Ev{G: g, Op: "get"}
	var r Resource
	e.Call = w.stamp()
	func() {
		defer func() {
			if p := recover(); p != nil {
				e.Panic = c24PanicText(p)
			}
		}()
		r, err = w.rp.Get(ctx)
	}()
	e.Ret = w.stamp()
	if e.Panic != "" {
		w.record(e)
		return nil, fmt.Errorf("panic")
	}
	if err != nil {
		e.Err = err.Error()
		w.record(e)
		return nil, err
	}
	cr, _ := r.(*c24Res)
	if cr == nil {
		e.Err = "nil resource without error"
		w.record(e)
		return nil, fmt.Errorf("nil resource")
	}
	e.Res = cr.id
	w.mu.Lock()
	h = &c24Hold{Seq: len(w.holds), Res: cr.id, G: g, GetRet: e.Ret, res: cr}
	w.holds = append(w.holds, h)
	w.out[h.Seq] = h
	w.hist = append(w.hist, e)
	w.mu.Unlock()
	return h, nil
}

// doPut returns a hold. asNil follows the Put(nil) protocol: the holder closes the resource
// itself and hands back an empty slot.
func (w *c24World) doPut(g int, h *c24Hold, asNil bool) (panicked string) {
	e := c24Ev{G: g, Op: "put", Res: h.Res}
	if asNil {
		e.Op = "putnil"
		atomic.StoreInt32(&h.res.byHolder, 1)
		h.res.Close()
	}
	e.Call = w.stamp()
	w.mu.Lock()
	h.PutCall = e.Call
	delete(w.out, h.Seq)
	w.mu.Unlock()
	func() {
		defer func() {
			if p := recover(); p != nil {
				e.Panic = c24PanicText(p)
			}
		}()
		if asNil {
			w.rp.Put(nil)
		} else {
			w.rp.Put(h.res)
		}
	}()
	e.Ret = w.stamp()
	w.record(e)
	return e.Panic
}

// doAdmin runs one of the non-client operations and records it.
func (w *c24World) doAdmin(g int, kind string, target int) {
	e := c24Ev{G: g, Op: kind}
	e.Call = w.stamp()
	func() {
		defer func() {
			if p := recover(); p != nil {
				e.Panic = c24PanicText(p)
			}
		}()
		switch kind {
		case "closeIdle":
			// the idle timer runs its handler on one goroutine, and Close stops the timer
			// (waiting for a running handler) before it scales to zero.
			w.idleMu.Lock()
			defer w.idleMu.Unlock()
			if w.idleOff {
				e.Err = "timer stopped"
				return
			}
			w.rp.closeIdleResources()
		case "scaleIn":
			w.capMu.Lock()
			defer w.capMu.Unlock()
			if w.capOff {
				e.Err = "timer stopped"
				return
			}
			// advancing the clock past the 60 s guard == moving the stored stamp back
			w.rp.lock.Lock()
			w.rp.scaleOutTime -= 1000
			w.rp.lock.Unlock()
			w.rp.scaleInResources()
		case "capUp", "capDown":
			w.setCapMu.Lock()
			defer w.setCapMu.Unlock()
			if err := w.rp.SetCapacity(target); err != nil {
				e.Err = err.Error()
			}
		case "close":
			w.idleMu.Lock()
			w.idleOff = true
			w.idleMu.Unlock()
			w.capMu.Lock()
			w.capOff = true
			w.capMu.Unlock()
			w.rp.Close()
		}
	}()
	e.Ret = w.stamp()
	w.record(e)
}

func (w *c24World) outstanding() []*c24Hold {
	w.mu.Lock()
	defer w.mu.Unlock()
	hs := make([]*c24Hold, 0, len(w.out))
	for _, h := range w.out {
		hs = append(hs, h)
	}
	sort.Slice(hs, func(i, j int) bool { return hs[i].Seq < hs[j].Seq })
	return hs
}

// ---------------------------------------------------------------------------------------
// findings of one run

type c24Finding struct {
	Clause string `json:"clause"`
	What   string `json:"what"`
}

type c24Findings struct {
	mu   sync.Mutex
	list []c24Finding
	seen map[string]bool
}

func (f *c24Findings) add(clause, what string) {
	f.mu.Lock()
	if f.seen == nil {
		f.seen = map[string]bool{}
	}
	if !f.seen[clause] {
		f.seen[clause] = true
		f.list = append(f.list, c24Finding{clause, what})
	}
	f.mu.Unlock()
}

func (f *c24Findings) all() []c24Finding {
	f.mu.Lock()
	defer f.mu.Unlock()
	return append([]c24Finding(nil), f.list...)
}

// barrier is oracle (3). It may only be called when no operation is in progress.
func (w *c24World) barrier(where string, f *c24Findings) {
	rp := w.rp
	l := int64(len(rp.resources))
	inUse, capN, avail, active := rp.inUse.Get(), rp.capacity.Get(), rp.available.Get(), rp.active.Get()
	w.mu.Lock()
	held := int64(len(w.out))
	w.mu.Unlock()
	state := fmt.Sprintf("at %s: len(resources)=%d inUse=%d held(truth)=%d capacity=%d available=%d active=%d max=%d", where, l, inUse, held, capN, avail, active, w.max)
	if l+inUse != capN || l+held != capN {
		f.add("q.sum", "idle + in-use != capacity "+state)
	}
	if avail != l {
		f.add("q.avail", "available != idle slots "+state)
	}
	if active < 0 || active > capN {
		f.add("q.active", "active outside [0,capacity] "+state)
	}
	if capN > int64(w.max) || capN < 0 {
		f.add("q.cap", "capacity outside [0,max] "+state)
	}
}

// historyOracles are oracles (1) and (2) on the recorded history. final says that the pool
// has been closed by the harness so every created resource must have been closed once.
func (w *c24World) historyOracles(f *c24Findings, final bool) {
	w.mu.Lock()
	hist := append([]c24Ev(nil), w.hist...)
	holds := make([]c24Hold, len(w.holds))
	for i, h := range w.holds {
		holds[i] = *h
	}
	res := append([]*c24Res(nil), w.res...)
	w.mu.Unlock()

	for _, e := range hist {
		if e.Panic == "" {
			continue
		}
		if e.Op == "put" || e.Op == "putnil" {
			f.add("put.panic", fmt.Sprintf("Put of resource %d obtained from the pool panicked: %s", e.Res, e.Panic))
		} else {
			f.add("panic."+e.Op, fmt.Sprintf("%s panicked: %s", e.Op, e.Panic))
		}
	}
	const inf = int64(1) << 62
	end := func(h c24Hold) int64 {
		if h.PutCall == 0 {
			return inf
		}
		return h.PutCall
	}
	// (1a) per resource: no two overlapping holds
	byRes := map[int64][]c24Hold{}
	for _, h := range holds {
		byRes[h.Res] = append(byRes[h.Res], h)
	}
	for id, hs := range byRes {
		sort.Slice(hs, func(i, j int) bool { return hs[i].GetRet < hs[j].GetRet })
		for i := 1; i < len(hs); i++ {
			if hs[i].GetRet < end(hs[i-1]) {
				f.add("double", fmt.Sprintf("resource %d held by g%d from stamp %d (returned at %d) and by g%d from stamp %d", id, hs[i-1].G, hs[i-1].GetRet, hs[i-1].PutCall, hs[i].G, hs[i].GetRet))
				break
			}
		}
	}
	// (1b) sweep line: simultaneous holds <= max capacity
	type pt struct {
		t int64
		d int
	}
	pts := make([]pt, 0, 2*len(holds))
	for _, h := range holds {
		pts = append(pts, pt{h.GetRet, +1}, pt{end(h), -1})
	}
	sort.Slice(pts, func(i, j int) bool {
		if pts[i].t != pts[j].t {
			return pts[i].t < pts[j].t
		}
		return pts[i].d < pts[j].d
	})
	cur, peak, peakT := 0, 0, int64(0)
	for _, p := range pts {
		cur += p.d
		if cur > peak {
			peak, peakT = cur, p.t
		}
	}
	if peak > w.max {
		f.add("overmax", fmt.Sprintf("%d resources handed out simultaneously at stamp %d, max capacity %d", peak, peakT, w.max))
	}
	// the pool must not close a resource somebody holds; nothing is closed twice; at the
	// end nothing is lost
	for _, r := range res {
		n := atomic.LoadInt32(&r.closeN)
		cs := atomic.LoadInt64(&r.closeStamp)
		if n > 1 {
			f.add("doubleClose", fmt.Sprintf("resource %d closed %d times", r.id, n))
		}
		if n >= 1 && atomic.LoadInt32(&r.byHolder) == 0 {
			for _, h := range byRes[r.id] {
				if cs > h.GetRet && cs < end(h) {
					f.add("closedHeld", fmt.Sprintf("resource %d closed by the pool at stamp %d while held by g%d (%d..%d)", r.id, cs, h.G, h.GetRet, h.PutCall))
					break
				}
			}
		}
		if final && n == 0 {
			f.add("lost", fmt.Sprintf("resource %d was created, returned, and is neither idle in the pool nor closed after Close", r.id))
		}
	}
}

// ---------------------------------------------------------------------------------------
// goroutine-state quiescence detector

func c24Gid() int64 {
	var b [64]byte
	n := runtime.Stack(b[:], false)
	s := b[:n]
	if !bytes.HasPrefix(s, []byte("goroutine ")) {
		return -1
	}
	s = s[len("goroutine "):]
	i := bytes.IndexByte(s, ' ')
	if i < 0 {
		return -1
	}
	v, _ := strconv.ParseInt(string(s[:i]), 10, 64)
	return v
}

// Wait reasons that only user-level synchronisation produces. "semacquire" is deliberately
// absent: the runtime parks goroutines with that reason for its own purposes (a goroutine
// that starts a GC cycle waits for the world semaphore which the dumping goroutine holds).
var c24Blocked = map[string]bool{
	"chan receive": true, "chan send": true, "select": true, "sync.Mutex.Lock": true,
	"sync.Cond.Wait": true, "sync.WaitGroup.Wait": true,
	"sync.RWMutex.Lock": true, "sync.RWMutex.RLock": true,
	"chan receive (nil chan)": true, "chan send (nil chan)": true, "select (no cases)": true,
}

var c24DumpBuf = make([]byte, 1<<18)

// c24Busy reports how many goroutines that execute pool or monitor code (other than the
// caller) are not parked in a channel/mutex wait. The dump is taken with the world stopped,
// so the answer is exact: zero means that only the caller can make anything move.
func c24Busy(self int64) (busy int, relevant int, workers int) {
	n := 0
	for {
		n = runtime.Stack(c24DumpBuf, true)
		if n < len(c24DumpBuf) {
			break
		}
		c24DumpBuf = make([]byte, 2*len(c24DumpBuf))
	}
	for _, blk := range strings.Split(string(c24DumpBuf[:n]), "\n\n") {
		if !strings.HasPrefix(blk, "goroutine ") {
			continue
		}
		if !strings.Contains(blk, "util.(*ResourcePool).") && !strings.Contains(blk, "util.c24") && !strings.Contains(blk, "util.(*c24") {
			continue
		}
		hdrEnd := strings.IndexByte(blk, '\n')
		if hdrEnd < 0 {
			hdrEnd = len(blk)
		}
		hdr := blk[:hdrEnd]
		sp := strings.IndexByte(hdr[10:], ' ')
		if sp < 0 {
			continue
		}
		id, _ := strconv.ParseInt(hdr[10:10+sp], 10, 64)
		if id == self {
			continue
		}
		relevant++
		if strings.Contains(blk, "scaleInResources.func1") {
			workers++ // the goroutine a scale-in tick spawned: an operation in progress
		}
		lb, rb := strings.IndexByte(hdr, '['), strings.LastIndexByte(hdr, ']')
		state := ""
		if lb >= 0 && rb > lb {
			state = hdr[lb+1 : rb]
			if c := strings.IndexByte(state, ','); c >= 0 {
				state = state[:c]
			}
		}
		if !c24Blocked[state] {
			busy++
		}
	}
	return busy, relevant, workers
}

const c24Watchdog = 5 * time.Minute

var c24DumpCount int64

// c24Workers is the number of scale-in goroutines seen by the last quiescence check.
var c24Workers int

// c24Quiet waits until no goroutine of the pool or of the monitor can move without the
// caller. Wall clock only paces the polling; the generous watchdog yields "inconclusive".
func c24Quiet(self int64) bool {
	start := time.Now()
	pause := 5 * time.Microsecond
	for {
		runtime.Gosched()
		c24DumpCount++
		busy, _, wk := c24Busy(self)
		if busy == 0 {
			c24Workers = wk
			return true
		}
		if time.Since(start) > c24Watchdog {
			return false
		}
		time.Sleep(pause)
		if pause < 400*time.Microsecond {
			pause *= 2
		}
	}
}

// c24Unwedge frees goroutines that stay blocked on a broken pool after a violation was
// recorded (best effort; only so that they do not pile up in later goroutine dumps).
func c24Unwedge(w *c24World, self int64, allDone func() bool) {
	for i := 0; i < 64 && !allDone(); i++ {
		func() {
			defer func() { recover() }()
			select {
			case w.rp.resources <- resourceWrapper{}:
			default:
				select {
				case <-w.rp.resources:
				default:
				}
			}
		}()
		c24Quiet(self)
	}
}
