package util

// C24 — TestVerif_C24: systematic one-preemption enumeration, then random stress restricted
// to operation mixes whose ordered pairs showed no violation (this run or listed as known).

import (
	"context"
	"encoding/json"
	"fmt"
	"io/ioutil"
	"path/filepath"
	"runtime"
	"sort"
	"strings"
	"sync"
	"sync/atomic"
	"testing"
	"time"

	kit "github.com/XiaoMi/Gaea/verifkit"
)

// c24Stress describes one random stress run.
type c24Stress struct {
	Run     int      `json:"run"`
	Workers int      `json:"workers"`
	Ops     int      `json:"ops_per_worker"`
	Mix     []string `json:"mix"`
	Hook    bool     `json:"hook"` // false: no step callback at all (pure race-detector run)
}

// ---------------------------------------------------------------------------------------
// step callback of the stress part: yields / spins by a PRNG. State is sharded by goroutine
// id so that the callback adds as few happens-before edges between pool goroutines as possible.

type c24ShardT struct {
	s   uint64
	cnt [12]int64
	_   [3]uint64
}

var (
	c24Shards     [64]c24ShardT
	c24StressSeed uint64
	c24StepIndex  = map[string]int{"closeIdle.taken": 0, "get.received": 1, "get.beforeAccounting": 2, "put.beforeSend": 3,
		"put.afterSend": 4, "scale.afterCAS": 5, "scale.shrinkLoop": 6, "scale.growLoop": 7, "scale.beforeClose": 8,
		"addCapacity.checked": 9, "scaleIn.beforeScale": 10}
	c24Sink uint64
)

func c24Mix64(z uint64) uint64 {
	z = (z ^ (z >> 30)) * 0xBF58476D1CE4E5B9
	z = (z ^ (z >> 27)) * 0x94D049BB133111EB
	return z ^ (z >> 31)
}

func c24StressStep(name string) {
	sh := &c24Shards[c24Gid()&63]
	if i, ok := c24StepIndex[name]; ok {
		atomic.AddInt64(&sh.cnt[i], 1)
	} else {
		atomic.AddInt64(&sh.cnt[11], 1)
	}
	z := c24Mix64(atomic.AddUint64(&sh.s, 0x9E3779B97F4A7C15) ^ atomic.LoadUint64(&c24StressSeed))
	switch z % 16 {
	case 8, 9, 10, 11:
		runtime.Gosched()
	case 12, 13:
		for i := uint64(0); i < (z>>8)%40; i++ {
			runtime.Gosched()
		}
	case 14:
		time.Sleep(time.Duration((z>>16)%40) * time.Microsecond)
	case 15:
		var x uint64
		for i := uint64(0); i < (z>>20)%3000; i++ {
			x += i * z
		}
		atomic.AddUint64(&c24Sink, x)
	}
}

func c24Has(mix []string, op string) bool {
	for _, m := range mix {
		if m == op {
			return true
		}
	}
	return false
}

// runStress executes one stress run and returns what was observed.
func (s *c24Sys) runStress(c c24Case) *c24Outcome {
	st := c.Stress
	w, err := c24NewWorld(c.Cap, c.Max)
	if err != nil {
		return nil
	}
	f := &c24Findings{}
	out := &c24Outcome{}
	c24CurCtl.Store((*c24Ctl)(nil))
	atomic.StoreUint64(&c24StressSeed, kit.Seed()*1000003+uint64(st.Run))
	if st.Hook {
		VerifSetStep(c24StressStep)
	} else {
		VerifSetStep(nil)
	}
	defer VerifSetStep(c24SysStep)

	s.quiet()
	baseWorkers := c24Workers
	ctx, cancel := context.WithCancel(context.Background())
	defer cancel()
	var running int32
	var wg sync.WaitGroup
	spawn := func(fn func()) {
		atomic.AddInt32(&running, 1)
		wg.Add(1)
		go c24StressGo(&running, &wg, fn)
	}
	label := fmt.Sprintf("C24/stress/%d", st.Run)
	for i := 0; i < st.Workers; i++ {
		g := i + 1
		r := kit.SubRand(kit.Seed(), fmt.Sprintf("%s/w%d", label, g))
		spawn(func() {
			for k := 0; k < st.Ops; k++ {
				h, err := w.doGet(g, ctx)
				if h == nil {
					if err == ErrClosed {
						return
					}
					continue
				}
				for y := r.Intn(4); y > 0; y-- {
					runtime.Gosched()
				}
				w.doPut(g, h, c24Has(st.Mix, "putnil") && r.Chance(1, 4))
				for y := r.Intn(3); y > 0; y-- {
					runtime.Gosched()
				}
			}
		})
	}
	admin := func(kind string, g int) {
		r := kit.SubRand(kit.Seed(), fmt.Sprintf("%s/%s", label, kind))
		spawn(func() {
			for k := 0; k < st.Ops; k++ {
				for y := r.Intn(12); y > 0; y-- {
					runtime.Gosched()
				}
				w.doAdmin(g, kind, 0)
			}
		})
	}
	if c24Has(st.Mix, "closeIdle") {
		admin("closeIdle", 101)
	}
	if c24Has(st.Mix, "scaleIn") {
		admin("scaleIn", 102)
	}
	if c24Has(st.Mix, "capUp") || c24Has(st.Mix, "capDown") {
		r := kit.SubRand(kit.Seed(), label+"/setcap")
		spawn(func() {
			for k := 0; k < st.Ops; k++ {
				for y := r.Intn(12); y > 0; y-- {
					runtime.Gosched()
				}
				base := int(w.rp.baseCapacity.Get())
				up := c24Has(st.Mix, "capUp") && base < w.max && (!c24Has(st.Mix, "capDown") || base <= 1 || r.Bool())
				if up {
					w.doAdmin(103, "capUp", r.Range(base+1, w.max))
				} else if c24Has(st.Mix, "capDown") && base > 1 {
					w.doAdmin(103, "capDown", r.Range(1, base-1))
				}
			}
		})
	}
	if c24Has(st.Mix, "close") {
		r := kit.SubRand(kit.Seed(), label+"/close")
		spawn(func() {
			for y := r.Intn(st.Ops * 20); y > 0; y-- {
				runtime.Gosched()
			}
			w.doAdmin(104, "close", 0)
		})
	}
	s.quiet()
	allDone := func() bool { return atomic.LoadInt32(&running) == 0 && c24Workers <= baseWorkers }
	if s.incon == "" {
		if !allDone() {
			f.add("hang", fmt.Sprintf("%d goroutine(s) blocked forever although every holder returns its resource", atomic.LoadInt32(&running)))
			cancel()
			s.quiet()
		} else {
			w.barrier("after the stress run", f)
		}
	}
	for _, h := range w.outstanding() {
		w.doPut(0, h, false)
	}
	s.teardown(w, f)
	if !allDone() {
		c24Unwedge(w, s.self, allDone)
	}
	w.historyOracles(f, s.incon == "")
	out.Findings = f.all()
	w.mu.Lock()
	n := len(w.hist)
	if len(out.Findings) > 0 && n > 400 {
		out.History = append([]c24Ev(nil), w.hist[n-400:]...)
	} else if len(out.Findings) > 0 {
		out.History = append([]c24Ev(nil), w.hist...)
	}
	// interleaving fingerprint and overlap measure for the evidence
	ev := append([]c24Ev(nil), w.hist...)
	w.mu.Unlock()
	sort.Slice(ev, func(i, j int) bool { return ev[i].Call < ev[j].Call })
	var sb strings.Builder
	overlaps := 0
	maxRet := int64(0)
	for _, e := range ev {
		fmt.Fprintf(&sb, "%d%s,", e.G, e.Op[:1])
		if e.Call < maxRet {
			overlaps++
		}
		if e.Ret > maxRet {
			maxRet = e.Ret
		}
	}
	out.Parked = overlaps > 0
	out.Steps = []string{kit.Hash64(sb.String()), fmt.Sprint(len(ev)), fmt.Sprint(overlaps)}
	return out
}

func c24StressGo(running *int32, wg *sync.WaitGroup, fn func()) {
	defer wg.Done()
	defer atomic.AddInt32(running, -1)
	fn()
}

// ---------------------------------------------------------------------------------------

func c24KnownPairs() map[string]bool {
	bad := map[string]bool{}
	paths, _ := filepath.Glob(filepath.Join(kit.OutDir(), "known", "*.json"))
	for _, p := range paths {
		b, err := ioutil.ReadFile(p)
		if err != nil {
			continue
		}
		var kf struct {
			Findings []struct {
				Property  string `json:"property"`
				Signature string `json:"signature"`
			} `json:"findings"`
		}
		if json.Unmarshal(b, &kf) != nil {
			continue
		}
		for _, f := range kf.Findings {
			parts := strings.Split(f.Signature, "|")
			if f.Property == "C24" && len(parts) == 4 && parts[1] != "stress" {
				bad[parts[1]+">"+parts[3]] = true
			}
		}
	}
	return bad
}

func c24MixOK(mix []string, bad map[string]bool) bool {
	all := append([]string{"get", "put"}, mix...)
	for _, a := range all {
		for _, b := range all {
			if bad[a+">"+b] {
				return false
			}
		}
	}
	return true
}

func c24Report(rec *kit.Rec, c c24Case, out *c24Outcome) {
	for _, fd := range out.Findings {
		cc := c
		cc.Obs = out
		sig := c24Sig(fd.Clause, c.First, c.Point, c.Second)
		if c.Kind == "stress" {
			sig = c24Sig(fd.Clause, "stress", strings.Join(c.Stress.Mix, "+"), "-")
		}
		rec.Violation(sig, fd.What, cc)
	}
}

func TestVerif_C24(t *testing.T) {
	rec := kit.Start("C24", "exploration", "systematic: every ordered pair of {get,put,put(nil),idle sweep,scale-in tick,SetCapacity up,SetCapacity down,Close} x every step point of the first (k-th occurrence) x start state {fresh,warm,exhausted,scaled-out,full} x (capacity,max); the first operation is parked at the point, the second runs until finished or provably blocked, then release, drain, oracles. A case is non-trivial when the first operation really parked at the point and the second ran; distinct = distinct (pair,point,occurrence,state,capacities,target,feasible). stress: random mixes of the operations whose ordered pairs are violation-free, step callback yields/spins by PRNG; non-trivial when operations overlapped; distinct = distinct interleaving fingerprint")
	defer rec.Finish(t)
	rec.Assume("the timers' handlers closeIdleResources/scaleInResources are invoked directly; timer.Stop semantics (Close waits for a running handler and no handler starts afterwards; one handler of a timer at a time) are reproduced by the harness")
	rec.Assume("SetCapacity calls are serialised with each other, as connectionPoolImpl.SetCapacity does under cp.mu")
	rec.Assume("the 60 s scale-in guard is passed by moving rp.scaleOutTime back under rp.lock; idle timeout 1 ns")
	rec.Assume("a holder returns a resource exactly once (Put) or closes it and returns nil (Put(nil)); the factory never fails")
	VerifSetStep(c24SysStep)
	defer VerifSetStep(nil)
	s := &c24Sys{self: c24Gid(), stepCount: map[string]int64{}}
	pre := kit.NewPreLog("C24")
	defer pre.Close()

	if p := kit.ReplayPath(); p != "" {
		var c c24Case
		if err := kit.LoadReplay(p, &c); err != nil {
			rec.Inconclusive("cannot load replay: " + err.Error())
			return
		}
		c.Obs = nil
		var out *c24Outcome
		if c.Kind == "stress" {
			out = s.runStress(c)
		} else {
			out = s.runPair(c)
		}
		rec.Eval(1)
		if out != nil {
			rec.Nontrivial("replay")
			rec.Nontrivial("replay2")
			cc := c
			cc.Obs = out
			rec.Sample(cc)
			c24Report(rec, c, out)
		}
		if s.incon != "" {
			rec.Inconclusive(s.incon)
		}
		return
	}

	thorough := kit.Tier() == "thorough"
	bad := c24KnownPairs()
	badSeen := map[string]bool{}
	cases := c24Enumerate(thorough)
	var sampled int
	for _, c := range cases {
		b, _ := json.Marshal(c)
		pre.Write(string(b))
		out := s.runPair(c)
		if s.incon != "" {
			rec.Inconclusive(s.incon + fmt.Sprintf(" in %s", string(b)))
			return
		}
		if out == nil {
			rec.Count("pairs.state_not_constructible", 1)
			continue
		}
		rec.Eval(1)
		for _, st := range out.Steps {
			s.stepCount[st]++
		}
		switch {
		case c.Point == "-":
			rec.Count("pairs.sequential", 1)
		case !out.Parked:
			rec.Count("pairs.point_not_reached", 1)
		case out.SecondDone:
			rec.Count("pairs.parked.second_completed", 1)
		default:
			rec.Count("pairs.parked.second_blocked(infeasible order)", 1)
		}
		if out.Parked {
			key := fmt.Sprintf("%s@%s#%d>%s|%s|%d/%d|%s|%v", c.First, c.Point, c.Occ, c.Second, c.Setup, c.Cap, c.Max, c.Tgt, out.SecondDone)
			rec.Nontrivial(key)
			if sampled < 3 && out.SecondDone && kit.SubRand(kit.Seed(), "C24/sample/"+key).Chance(1, 40) {
				sampled++
				cc := c
				o2 := *out
				cc.Obs = &o2
				rec.Sample(cc)
			}
		}
		if len(out.Findings) > 0 {
			badSeen[c.First+">"+c.Second] = true
			rec.Count("pairs.with_violation", 1)
			c24Report(rec, c, out)
		}
	}
	rec.Exhaustive(thorough)
	for k, v := range s.stepCount {
		rec.Count("step.sys."+k, v)
	}
	for k := range badSeen {
		bad[k] = true
	}
	var badList []string
	for k := range bad {
		badList = append(badList, k)
	}
	sort.Strings(badList)
	rec.Set("pairs_with_violation_or_known", badList)

	// ---- stress
	var mixes [][]string
	if c24MixOK(nil, bad) {
		admins := []string{"putnil", "closeIdle", "scaleIn", "capUp", "capDown", "close"}
		var greedy []string
		for _, a := range admins {
			if c24MixOK([]string{a}, bad) {
				mixes = append(mixes, []string{a})
			}
			if c24MixOK(append(append([]string(nil), greedy...), a), bad) {
				greedy = append(greedy, a)
			}
		}
		mixes = append(mixes, nil)
		if len(greedy) > 1 {
			mixes = append(mixes, greedy, greedy)
		}
	}
	var mixNames []string
	for _, m := range mixes {
		mixNames = append(mixNames, "get+put+"+strings.Join(m, "+"))
	}
	rec.Set("stress.mixes", mixNames)
	runs := kit.N(150, 4000)
	if len(mixes) == 0 {
		runs = 0
		rec.Set("stress.skipped", "get/put alone already violate in the systematic part")
	}
	for i := range c24Shards {
		for j := range c24Shards[i].cnt {
			atomic.StoreInt64(&c24Shards[i].cnt[j], 0)
		}
	}
	sr := kit.SubRand(kit.Seed(), "C24/stress/plan")
	for run := 0; run < runs; run++ {
		capN := sr.Range(1, 3)
		c := c24Case{Kind: "stress", Cap: capN, Max: sr.Range(capN, 4), Stress: &c24Stress{Run: run, Workers: sr.Range(2, 8), Ops: sr.Range(5, 40), Mix: mixes[run%len(mixes)], Hook: run%3 != 2}}
		b, _ := json.Marshal(c)
		pre.Write(string(b))
		out := s.runStress(c)
		if s.incon != "" {
			rec.Inconclusive(s.incon + fmt.Sprintf(" in %s", string(b)))
			return
		}
		if out == nil {
			continue
		}
		rec.Eval(1)
		rec.Count("stress.runs", 1)
		if out.Parked {
			rec.Nontrivial("stress|" + strings.Join(c.Stress.Mix, "+") + "|" + out.Steps[0])
		}
		if run < 2 {
			cc := c
			cc.Obs = &c24Outcome{Parked: out.Parked, Steps: out.Steps}
			rec.Sample(cc)
		}
		if len(out.Findings) > 0 {
			c24Report(rec, c, out)
		}
	}
	names := make([]string, 12)
	for k, i := range c24StepIndex {
		names[i] = k
	}
	names[11] = "other"
	for j, nm := range names {
		var tot int64
		for i := range c24Shards {
			tot += atomic.LoadInt64(&c24Shards[i].cnt[j])
		}
		if tot > 0 {
			rec.Count("step.stress."+nm, tot)
		}
	}
	rec.Set("goroutine_dumps", c24DumpCount)
}
