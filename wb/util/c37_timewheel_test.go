package util

// C37 — idle sessions are closed on time and active ones are not.
//
// Monitor: the REAL wheel loop (TimeWheel.start: wait for tick -> drain pipeline ->
// handleTick) runs in its own goroutine; hook H3 (VerifSetSleep) replaces the tick wait, so
// the harness releases one tick at a time and issues Add/Remove between ticks. Every
// callback records (registration id, number of the tick during which it ran); after each
// tick the harness waits until the loop is parked again and all callback goroutines have
// finished. Oracle (tick units, whole-tick timeouts): the callback of the latest
// registration of key k, made between tick n-1 and tick n (so drained by tick n) with delay d
// ticks, runs exactly once, during tick n+d; it never runs if k was re-added or removed
// before; nothing else ever runs; afterwards the wheel is empty. A burst scenario puts
// 5 000 Adds between two ticks.

import (
	"fmt"
	"runtime"
	"sort"
	"strings"
	"sync"
	"sync/atomic"
	"testing"
	"time"

	kit "github.com/XiaoMi/Gaea/verifkit"
)

type c37Op struct {
	Op  string `json:"op"` // add | del | tick
	Key int    `json:"key,omitempty"`
	D   int    `json:"d,omitempty"` // delay in ticks
}

type c37Case struct {
	Buckets int     `json:"buckets"`
	Ops     []c37Op `json:"ops"`
	Burst   int     `json:"burst,omitempty"`   // >0: scenario with that many Adds between two ticks
	BurstD  int     `json:"burst_d,omitempty"` // delay of the filler Adds of the burst (0: 1+i%7)
	// BurstRemove: after the burst has filled the pipeline, the 10 pre-registered keys are
	// removed ("remove") or removed and registered again ("readd") instead of refreshed
	BurstRemove string `json:"burst_remove,omitempty"`
}

type c37Fire struct {
	reg  int
	tick int64
}

type c37Reg struct {
	key, d      int
	due         int64
	state       string // live | superseded | removed | fired
	overflowAdd bool   // made while more operations were pending than the pipeline holds
	overflowDel bool   // removed while the pipeline was full
}

type c37Rig struct {
	tw      *TimeWheel
	n       int
	arrived chan struct{}
	release chan struct{}
	tick    int64 // atomic: number of the tick being / last processed
	mu      sync.Mutex
	fired   []c37Fire
	base    int
	pending int // operations issued since the last tick
	dead    bool
}

var c37Cur atomic.Value // *c37Rig

var c37Inconclusive atomic.Value // string

func c37Sleep(d time.Duration) {
	r, _ := c37Cur.Load().(*c37Rig)
	if r == nil {
		time.Sleep(time.Millisecond)
		return
	}
	r.arrived <- struct{}{}
	<-r.release
}

func c37WaitArrived(r *c37Rig) bool {
	select {
	case <-r.arrived:
		return true
	case <-time.After(2 * time.Minute): // watchdog only
		c37Inconclusive.Store("wheel loop did not come back to its tick wait within the watchdog")
		r.dead = true
		return false
	}
}

func c37NewRig(n int) *c37Rig {
	r := &c37Rig{n: n, arrived: make(chan struct{}), release: make(chan struct{})}
	tw, err := NewTimeWheel(time.Second, n)
	if err != nil {
		panic(err)
	}
	r.tw = tw
	c37Cur.Store(r)
	tw.Start()
	c37WaitArrived(r)
	r.base = runtime.NumGoroutine()
	return r
}

// stop ends the wheel goroutine through the wheel's own Stop.
func (r *c37Rig) stop() {
	if r.dead {
		return
	}
	r.tw.Stop()
	r.release <- struct{}{}
	r.dead = true
	for i := 0; i < 1000000 && runtime.NumGoroutine() >= r.base; i++ {
		runtime.Gosched()
	}
}

// doTick releases one tick and returns the registrations whose callbacks ran during it.
func (r *c37Rig) doTick() ([]c37Fire, bool) {
	atomic.AddInt64(&r.tick, 1)
	r.pending = 0
	r.release <- struct{}{}
	if !c37WaitArrived(r) {
		return nil, false
	}
	// callbacks are started with `go`: wait until they are gone
	for i := 0; runtime.NumGoroutine() > r.base; i++ {
		runtime.Gosched()
		if i > 0 && i%20000 == 0 {
			time.Sleep(time.Millisecond)
		}
		if i > 4000000 {
			c37Inconclusive.Store("callback goroutines did not finish within the watchdog")
			r.dead = true
			return nil, false
		}
	}
	r.mu.Lock()
	f := r.fired
	r.fired = nil
	r.mu.Unlock()
	return f, true
}

func (r *c37Rig) empty() (bool, string) {
	for i, b := range r.tw.buckets {
		if len(b) != 0 {
			return false, fmt.Sprintf("bucket %d holds %d task(s)", i, len(b))
		}
	}
	if len(r.tw.bucketIndexes) != 0 {
		return false, fmt.Sprintf("index holds %d key(s)", len(r.tw.bucketIndexes))
	}
	return true, ""
}

type c37Fail struct {
	Clause  string
	Detail  string
	D       int
	Over    bool
	OverDel bool
}

func c37DelayClass(d, n int) string {
	switch {
	case d < n:
		return "below-span"
	case d == n:
		return "equal-span"
	case d%n == 0:
		return "multiple-of-span"
	default:
		return "above-span"
	}
}

type c37Stats struct {
	Ticks, Adds, Dels, Fired int64
}

// c37Exec runs ops on rig r (which must be empty) and judges every tick.
func c37Exec(r *c37Rig, ops []c37Op, st *c37Stats) *c37Fail {
	regs := []c37Reg{{}}  // id 0 unused
	live := map[int]int{} // key -> reg id
	pipeCap := cap(r.tw.pipelineC)
	var now int64 // ticks done in this execution
	tick0 := atomic.LoadInt64(&r.tick)

	judge := func(fired []c37Fire) *c37Fail {
		// expected: live registrations due now
		exp := map[int]bool{}
		for _, id := range live {
			if regs[id].due == now {
				exp[id] = true
			}
		}
		seen := map[int]bool{}
		for _, f := range fired {
			st.Fired++
			if f.reg <= 0 || f.reg >= len(regs) {
				return &c37Fail{Clause: "foreign-callback", Detail: fmt.Sprintf("registration %d of an earlier sequence ran in tick %d", f.reg, now)}
			}
			g := &regs[f.reg]
			if f.tick-tick0 != now {
				return &c37Fail{Clause: "harness/tick-attribution", Detail: fmt.Sprintf("callback recorded tick %d, harness is at %d", f.tick-tick0, now)}
			}
			switch {
			case seen[f.reg] || g.state == "fired":
				return &c37Fail{Clause: "ran-twice", D: g.d, Over: g.overflowAdd, Detail: fmt.Sprintf("key %d registration #%d (delay %d) ran again in tick %d", g.key, f.reg, g.d, now)}
			case g.state == "superseded":
				return &c37Fail{Clause: "superseded-registration-ran", D: g.d, Over: c37AnyOverflow(regs, g.key), Detail: fmt.Sprintf("key %d: registration #%d (delay %d, due tick %d) ran in tick %d although the key was registered again", g.key, f.reg, g.d, g.due, now)}
			case g.state == "removed":
				return &c37Fail{Clause: "removed-registration-ran", D: g.d, Over: g.overflowAdd, OverDel: g.overflowDel, Detail: fmt.Sprintf("key %d: registration #%d (delay %d) ran in tick %d although the key was removed", g.key, f.reg, g.d, now)}
			case !exp[f.reg] && g.due > now:
				return &c37Fail{Clause: "ran-early", D: g.d, Over: g.overflowAdd, Detail: fmt.Sprintf("key %d registration #%d with delay %d ticks, drained by tick %d, ran in tick %d, due %d", g.key, f.reg, g.d, g.due-int64(g.d), now, g.due)}
			case !exp[f.reg]:
				return &c37Fail{Clause: "ran-late", D: g.d, Over: g.overflowAdd, Detail: fmt.Sprintf("key %d registration #%d with delay %d ran in tick %d, due %d", g.key, f.reg, g.d, now, g.due)}
			}
			seen[f.reg] = true
			g.state = "fired"
			delete(live, g.key)
		}
		ids := make([]int, 0, len(exp))
		for id := range exp {
			ids = append(ids, id)
		}
		sort.Ints(ids)
		for _, id := range ids {
			if !seen[id] {
				g := regs[id]
				return &c37Fail{Clause: "not-run-at-due-tick", D: g.d, Over: g.overflowAdd, Detail: fmt.Sprintf("key %d registration #%d with delay %d ticks, drained by tick %d, did not run in tick %d", g.key, id, g.d, g.due-int64(g.d), now)}
			}
		}
		return nil
	}

	step := func() *c37Fail {
		now++
		st.Ticks++
		fired, ok := r.doTick()
		if !ok {
			return &c37Fail{Clause: "harness/watchdog"}
		}
		return judge(fired)
	}
	for _, op := range ops {
		switch op.Op {
		case "add":
			st.Adds++
			id := len(regs)
			over := r.pending >= pipeCap
			regs = append(regs, c37Reg{key: op.Key, d: op.D, due: now + 1 + int64(op.D), state: "live", overflowAdd: over})
			if old, ok := live[op.Key]; ok {
				regs[old].state = "superseded"
			}
			live[op.Key] = id
			rig := r
			r.pending++
			if err := r.tw.Add(time.Duration(op.D)*time.Second, op.Key, func() {
				t := atomic.LoadInt64(&rig.tick)
				rig.mu.Lock()
				rig.fired = append(rig.fired, c37Fire{reg: id, tick: t})
				rig.mu.Unlock()
			}); err != nil {
				return &c37Fail{Clause: "add-refused", D: op.D, Detail: err.Error()}
			}
		case "del":
			st.Dels++
			overDel := r.pending >= pipeCap
			if old, ok := live[op.Key]; ok {
				regs[old].state = "removed"
				regs[old].overflowDel = overDel
				delete(live, op.Key)
			}
			r.pending++
			if overDel {
				// The pipeline is full and the wheel loop is parked: the real Remove blocks until the
				// next tick drains the pipeline (the runtime hands a parked sender's item over with the
				// first receive, so it is applied by that same tick). Issue it from its own goroutine
				// and give it a moment to park; the pause only paces, the verdict (a removed
				// registration never runs) does not depend on which tick applies the removal.
				done := make(chan struct{})
				key := op.Key
				go func() {
					r.tw.Remove(key)
					close(done)
				}()
				select {
				case <-done:
				case <-time.After(5 * time.Millisecond):
				}
			} else if err := r.tw.Remove(op.Key); err != nil {
				return &c37Fail{Clause: "remove-refused", Detail: err.Error()}
			}
		case "tick":
			if f := step(); f != nil {
				return f
			}
		}
	}
	// trailing ticks until every live registration was due
	for len(live) > 0 {
		if f := step(); f != nil {
			return f
		}
		if now > int64(len(ops))+int64(40*r.n) {
			break
		}
	}
	if f := step(); f != nil { // one more: nothing may run any more
		return f
	}
	if ok, what := r.empty(); !ok {
		return &c37Fail{Clause: "stale-entry-left-in-wheel", Detail: what}
	}
	return nil
}

func c37AnyOverflow(regs []c37Reg, key int) bool {
	for _, g := range regs {
		if g.key == key && g.overflowAdd {
			return true
		}
	}
	return false
}

func c37Sig(c c37Case, f *c37Fail) string {
	if f.OverDel {
		return f.Clause + "/remove-issued-on-full-pipeline"
	}
	if f.Over {
		return f.Clause + "/add-issued-on-full-pipeline"
	}
	if f.D > 0 {
		return f.Clause + "/" + c37DelayClass(f.D, c.Buckets)
	}
	return f.Clause
}

func c37Expand(c c37Case) []c37Op {
	if c.Burst == 0 {
		return c.Ops
	}
	// 10 keys registered with delay 3, one tick, then Burst Adds (the first 10 refresh those
	// keys with delay 5, the others are new keys with delays 1..7) between two ticks
	ops := []c37Op{}
	for k := 0; k < 10; k++ {
		ops = append(ops, c37Op{Op: "add", Key: 100000 + k, D: 3})
	}
	ops = append(ops, c37Op{Op: "tick"})
	if c.BurstRemove != "" {
		// the pre-registered keys are due in tick 1+3 = 4, the removal is issued before tick 2
		// on a pipeline that the filler Adds (due in tick 2+d) have just filled
		for i := 0; i < c.Burst; i++ {
			d := c.BurstD
			if d == 0 {
				d = 7
			}
			ops = append(ops, c37Op{Op: "add", Key: i, D: d})
		}
		for k := 0; k < 10; k++ {
			ops = append(ops, c37Op{Op: "del", Key: 100000 + k})
			if c.BurstRemove == "readd" {
				ops = append(ops, c37Op{Op: "add", Key: 100000 + k, D: 9})
			}
		}
		ops = append(ops, c37Op{Op: "tick"})
		return ops
	}
	for i := 0; i < c.Burst; i++ {
		if i >= c.Burst-10 {
			ops = append(ops, c37Op{Op: "add", Key: 100000 + (i - (c.Burst - 10)), D: 5})
		} else {
			d := c.BurstD
			if d == 0 {
				d = 1 + i%7
			}
			ops = append(ops, c37Op{Op: "add", Key: i, D: d})
		}
	}
	ops = append(ops, c37Op{Op: "tick"})
	return ops
}

func TestVerif_C37(t *testing.T) {
	rec := kit.Start("C37", "exploration", "operation sequences over {Add(key,d) for 2 keys and d in {1,N-1,N,N+1,2N,3N}, Remove(key), tick} on the real wheel loop with harness-owned ticks: exhaustive up to the tier's length for N=4, random length-60 sequences over 4 keys for N=4..8, and a burst of 5000 Adds between two ticks; non-trivial = distinct sequences in which a registration was superseded or removed before it was due and another one fired")
	defer rec.Finish(t)
	rec.Assume("timeouts are whole numbers of ticks (a tick-granular wheel cannot meet both bounds of the statement otherwise)")
	rec.Assume("operations are issued between ticks, while the wheel loop is parked in its tick wait")

	VerifSetSleep(c37Sleep)
	defer VerifSetSleep(nil)
	var st c37Stats
	rigs := map[int]*c37Rig{}
	getRig := func(n int) *c37Rig {
		if r := rigs[n]; r != nil && !r.dead {
			c37Cur.Store(r)
			return r
		}
		r := c37NewRig(n)
		rigs[n] = r
		return r
	}
	// only one wheel goroutine may be alive at a time (the hook is global): stop others
	useOnly := func(n int) *c37Rig {
		for k, r := range rigs {
			if k != n && !r.dead {
				c37Cur.Store(r)
				r.stop()
			}
		}
		return getRig(n)
	}
	run := func(c c37Case) *c37Fail {
		r := useOnly(c.Buckets)
		f := c37Exec(r, c37Expand(c), &st)
		if f != nil {
			// the wheel may hold left-overs: retire it
			c37Cur.Store(r)
			r.stop()
		}
		return f
	}
	shrink := func(c c37Case) c37Case {
		if c.Burst > 0 {
			return c
		}
		for changed := true; changed; {
			changed = false
			for i := 0; i < len(c.Ops); i++ {
				d := c
				d.Ops = append(append([]c37Op(nil), c.Ops[:i]...), c.Ops[i+1:]...)
				if f := run(d); f != nil && !strings.HasPrefix(f.Clause, "harness/") {
					c, changed = d, true
					break
				}
			}
		}
		return c
	}
	runOne := func(c c37Case) {
		rec.Eval(1)
		f := run(c)
		if f == nil {
			return
		}
		if strings.HasPrefix(f.Clause, "harness/") {
			if v, _ := c37Inconclusive.Load().(string); v != "" {
				rec.Inconclusive(v)
			} else {
				rec.Inconclusive("harness self-check failed: " + f.Clause + " " + f.Detail)
			}
			return
		}
		m := shrink(c)
		mf := run(m)
		if mf == nil || strings.HasPrefix(mf.Clause, "harness/") {
			m, mf = c, f
		}
		show := m.Ops
		if m.Burst > 0 {
			show = nil
		}
		rec.Violation(c37Sig(m, mf), fmt.Sprintf("wheel of %d buckets, burst=%d, ops=%+v: %s: %s", m.Buckets, m.Burst, show, mf.Clause, mf.Detail), m)
	}
	nontrivial := func(c c37Case) {
		// a registration superseded or removed before it was due, and some add afterwards
		lastAdd := map[int]int{}
		interesting := false
		for i, op := range c.Ops {
			switch op.Op {
			case "add":
				if _, ok := lastAdd[op.Key]; ok {
					interesting = true
				}
				lastAdd[op.Key] = i
			case "del":
				if _, ok := lastAdd[op.Key]; ok {
					interesting = true
				}
			}
		}
		if interesting {
			var sb strings.Builder
			fmt.Fprintf(&sb, "N%d:", c.Buckets)
			for _, op := range c.Ops {
				fmt.Fprintf(&sb, "%s%d.%d,", op.Op[:1], op.Key, op.D)
			}
			rec.Nontrivial(sb.String())
		}
	}

	if p := kit.ReplayPath(); p != "" {
		var c c37Case
		if err := kit.LoadReplay(p, &c); err != nil {
			t.Fatal(err)
		}
		runOne(c)
		return
	}

	// (1) exhaustive sequences, N=4
	const n4 = 4
	alpha := []c37Op{{Op: "tick"}, {Op: "del", Key: 1}, {Op: "del", Key: 2}}
	for _, k := range []int{1, 2} {
		for _, d := range []int{1, n4 - 1, n4, n4 + 1, 2 * n4, 3 * n4} {
			alpha = append(alpha, c37Op{Op: "add", Key: k, D: d})
		}
	}
	maxLen := kit.N(3, 5)
	var nEx int64
	ops := make([]c37Op, maxLen)
	var walk func(pos int)
	walk = func(pos int) {
		if pos == maxLen {
			c := c37Case{Buckets: n4, Ops: append([]c37Op(nil), ops...)}
			nEx++
			runOne(c)
			nontrivial(c)
			if nEx%997 == 0 {
				rec.Sample(c)
			}
			return
		}
		for _, a := range alpha {
			ops[pos] = a
			walk(pos + 1)
		}
	}
	walk(0)
	rec.Exhaustive(true)
	rec.Set("exhaustive_space", fmt.Sprintf("all %d sequences of %d operations over the 15-letter alphabet {tick, Remove(k), Add(k,d)}, k in {1,2}, d in {1,3,4,5,8,12}, wheel of 4 buckets (shorter sequences are prefixes followed by ticks)", nEx, maxLen))

	// (1b) sampled sequences of length 4..6 over the same alphabet (the thorough tier enumerates 5)
	r := kit.SubRand(kit.Seed(), "C37/short")
	for i, n := 0, kit.N(6000, 30000); i < n; i++ {
		c := c37Case{Buckets: n4}
		for j, l := 0, r.Range(4, 6); j < l; j++ {
			c.Ops = append(c.Ops, alpha[r.Intn(len(alpha))])
		}
		runOne(c)
		nontrivial(c)
	}

	// (2) random sequences, N in 4..8, 4 keys
	r = kit.SubRand(kit.Seed(), "C37/random")
	for i, n := 0, kit.N(800, 30000); i < n; i++ {
		nb := 4 + i%5
		c := c37Case{Buckets: nb}
		ds := []int{1, nb - 1, nb, nb + 1, 2 * nb, 3 * nb, 2, 2*nb + 1}
		for j := 0; j < 60; j++ {
			switch x := r.Intn(10); {
			case x < 4:
				c.Ops = append(c.Ops, c37Op{Op: "tick"})
			case x < 5:
				c.Ops = append(c.Ops, c37Op{Op: "del", Key: 1 + r.Intn(4)})
			default:
				c.Ops = append(c.Ops, c37Op{Op: "add", Key: 1 + r.Intn(4), D: ds[r.Intn(len(ds))]})
			}
		}
		runOne(c)
		nontrivial(c)
		if i%500 == 0 {
			rec.Sample(c)
		}
	}

	// (3) burst: 5000 Adds between two ticks
	for _, nb := range []int{8, 5} {
		runOne(c37Case{Buckets: nb, Burst: 5000})
		runOne(c37Case{Buckets: nb, Burst: 5000, BurstD: 7}) // the refreshes at the end of the burst are the first to matter
		runOne(c37Case{Buckets: nb, Burst: 4000})            // below the pipeline capacity: must hold exactly
		// the burst fills the pipeline exactly (no Add is lost), then sessions are removed
		runOne(c37Case{Buckets: nb, Burst: 4096, BurstD: 7, BurstRemove: "remove"})
		runOne(c37Case{Buckets: nb, Burst: 4096, BurstD: 7, BurstRemove: "readd"})
		runOne(c37Case{Buckets: nb, Burst: 5000, BurstD: 7, BurstRemove: "remove"})
	}

	for _, rg := range rigs {
		if !rg.dead {
			c37Cur.Store(rg)
			rg.stop()
		}
	}
	rec.Count("ticks", st.Ticks)
	rec.Count("adds", st.Adds)
	rec.Count("removes", st.Dels)
	rec.Count("callbacks_observed", st.Fired)
	if st.Ticks == 0 || st.Fired == 0 {
		rec.Inconclusive("no tick / callback observed")
	}
	if v, _ := c37Inconclusive.Load().(string); v != "" {
		rec.Inconclusive(v)
	}
}
