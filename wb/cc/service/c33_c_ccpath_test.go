package service

// C33 part c — "a namespace saved THROUGH THE CONTROL PLANE ... and loaded by a proxy ... is
// equal to the submitted configuration", on the multi-step paths that live in cc/service:
// the real ModifyNamespace / QueryNamespace / DelNamespace against the fake etcd (verifkit/cc)
// and one registered stub admin endpoint that answers ping/prepare/commit/delete with OK or
// with an error reply (so that the real rollbackNamespace runs). After every step the
// namespace is loaded the way a proxy does it (real Store.LoadNamespace and LoadNamespaces
// with the key) and must be deep-equal to the configuration that is in force: the new one
// after a reported success, the previous one after a reported failure (absent for a failed
// creation), after Verify's own normalisation.

import (
	"bytes"
	"encoding/json"
	"fmt"
	"net"
	"net/http"
	"reflect"
	"sort"
	"strconv"
	"strings"
	"sync"
	"testing"

	"github.com/XiaoMi/Gaea/log"
	"github.com/XiaoMi/Gaea/models"
	kit "github.com/XiaoMi/Gaea/verifkit"
	cckit "github.com/XiaoMi/Gaea/verifkit/cc"
)

type c33cNullLog struct{}

func (c33cNullLog) SetLevel(name, level string) error                    { return nil }
func (c33cNullLog) Debug(format string, a ...interface{}) error          { return nil }
func (c33cNullLog) Trace(format string, a ...interface{}) error          { return nil }
func (c33cNullLog) Notice(format string, a ...interface{}) error         { return nil }
func (c33cNullLog) Warn(format string, a ...interface{}) error           { return nil }
func (c33cNullLog) Fatal(format string, a ...interface{}) error          { return nil }
func (c33cNullLog) Debugx(logID, format string, a ...interface{}) error  { return nil }
func (c33cNullLog) Tracex(logID, format string, a ...interface{}) error  { return nil }
func (c33cNullLog) Noticex(logID, format string, a ...interface{}) error { return nil }
func (c33cNullLog) Warnx(logID, format string, a ...interface{}) error   { return nil }
func (c33cNullLog) Fatalx(logID, format string, a ...interface{}) error  { return nil }
func (c33cNullLog) Close()                                               {}
func (c33cNullLog) Dropped(i int) uint64                                 { return 0 }

const (
	c33cRoot    = "/c33c"
	c33cCluster = "c33c"
)

// c33cStub is a registered "proxy" whose admin endpoint accepts or refuses by script.
type c33cStub struct {
	mu       sync.Mutex
	failOp   string // "", "prepare", "commit", "delete"
	requests map[string]int
	ln       net.Listener
}

func c33cNewStub() (*c33cStub, error) {
	ln, err := net.Listen("tcp4", "127.0.0.1:0")
	if err != nil {
		return nil, err
	}
	s := &c33cStub{ln: ln, requests: map[string]int{}}
	go http.Serve(ln, http.HandlerFunc(func(w http.ResponseWriter, r *http.Request) {
		op := "other"
		switch {
		case strings.HasSuffix(r.URL.Path, "/ping"):
			op = "ping"
		case strings.Contains(r.URL.Path, "/config/prepare/"):
			op = "prepare"
		case strings.Contains(r.URL.Path, "/config/commit/"):
			op = "commit"
		case strings.Contains(r.URL.Path, "/namespace/delete/"):
			op = "delete"
		}
		s.mu.Lock()
		s.requests[op]++
		fail := s.failOp == op
		s.mu.Unlock()
		w.Header().Set("Content-Type", "application/json; charset=utf-8")
		if fail {
			w.WriteHeader(800)
			w.Write([]byte(`"stub: refused"`))
			return
		}
		w.Write([]byte(`"OK"`))
	}))
	return s, nil
}

func (s *c33cStub) fail(op string) {
	s.mu.Lock()
	s.failOp = op
	s.mu.Unlock()
}

type c33cCase struct {
	Part    string `json:"part"` // "ccpath"
	State   uint64 `json:"prng_state"`
	NameCls string `json:"name_class"`
	CredCls string `json:"cred_class"`
	KeyLen  int    `json:"key_len"`
	FailOp  string `json:"fail_op"` // phase the stub refuses in the failing steps: prepare | commit
}

var c33cNameClasses = []string{"plain", "dotted", "unicode", "innerspace"}
var c33cCredClasses = []string{"ascii", "padded", "badutf8", "allbytes", "len15", "len16", "len17", "len32", "quotes", "nul", "long"}

func c33cCred(cls string, r *kit.Rand) string {
	switch cls {
	case "padded":
		return "  pad" + strconv.Itoa(r.Intn(100000)) + "\t "
	case "badutf8":
		return string([]byte{0xff, 0xfe, 'a', 0x80, byte(r.Intn(256)), byte(r.Intn(256)), 0xc3, 0x28, 'z'})
	case "allbytes":
		b := make([]byte, 256)
		for i := range b {
			b[i] = byte(i + 1)
		}
		return "x" + strconv.Itoa(r.Intn(100000)) + string(b) + "y"
	case "len15", "len16", "len17", "len32":
		n, _ := strconv.Atoi(cls[3:])
		b := r.Bytes(n)
		b[0], b[n-1] = 'k', 'z'
		return string(b)
	case "quotes":
		return "a\"b'c\\d`e" + strconv.Itoa(r.Intn(100000))
	case "nul":
		return "a\x00b" + strconv.Itoa(r.Intn(100000))
	case "long":
		return "L" + string(bytes.Repeat([]byte{0xe2, 0x82, 0xac}, 200)) + strconv.Itoa(r.Intn(100000))
	}
	return "user_" + strconv.Itoa(r.Intn(1000000))
}

func c33cName(cls string) string {
	switch cls {
	case "dotted":
		return "ns.prod-eu_1"
	case "unicode":
		return "ns_数据库_ß"
	case "innerspace":
		return "ns with space"
	}
	return "ns_plain"
}

// c33cGen: the submitted configuration of the case in the given version (independent value
// per call; ModifyNamespace verifies and encrypts its argument in place).
func c33cGen(c c33cCase, suffix string, version int) *models.Namespace {
	r := kit.NewRand(c.State + uint64(version)*104729 + uint64(len(suffix))*7919)
	name := c33cName(c.NameCls) + suffix
	n := &models.Namespace{Name: name, Online: true, AllowedDBS: map[string]bool{"db1": true}, MaxSqlExecuteTime: 1000 + version,
		DefaultSlice: "slice-0", SlowSQLTime: "100"}
	for u := 0; u < 1+r.Intn(3); u++ {
		n.Users = append(n.Users, &models.User{UserName: "u" + strconv.Itoa(u) + c33cCred(c.CredCls, r), Password: c33cCred(c.CredCls, r),
			RWFlag: r.Range(1, 2), RWSplit: r.Intn(2)})
	}
	for s := 0; s < 1+r.Intn(2); s++ {
		n.Slices = append(n.Slices, &models.Slice{Name: "slice-" + strconv.Itoa(s), UserName: "b" + c33cCred(c.CredCls, r), Password: c33cCred(c.CredCls, r),
			Master: "127.0.0.1:3306", Slaves: []string{"127.0.0.1:3307"}, Capacity: 2, MaxCapacity: 4, IdleTimeout: 60})
	}
	return n
}

func c33cDiff(got, want *models.Namespace) string {
	if got == nil {
		return "missing"
	}
	g := *got
	g.IsEncrypt = want.IsEncrypt
	if reflect.DeepEqual(&g, want) {
		return ""
	}
	gv, wv := reflect.ValueOf(g), reflect.ValueOf(*want)
	for i := 0; i < gv.NumField(); i++ {
		if !reflect.DeepEqual(gv.Field(i).Interface(), wv.Field(i).Interface()) {
			return "differs:" + gv.Type().Field(i).Name
		}
	}
	return "differs"
}

type c33cOutcome struct {
	Case     c33cCase `json:"case"`
	Rejected string   `json:"rejected,omitempty"`
	Clauses  []string `json:"clauses,omitempty"`
	Errors   []string `json:"errors,omitempty"`
	Steps    int      `json:"steps"`
}

func c33cRun(fake *cckit.FakeEtcd, stub *c33cStub, c c33cCase) (out c33cOutcome) {
	out.Case = c
	defer func() {
		if p := recover(); p != nil {
			out.Clauses = append(out.Clauses, "panic")
			out.Errors = append(out.Errors, fmt.Sprint(p))
		}
		sort.Strings(out.Clauses)
		stub.fail("")
		for _, k := range fake.Keys(c33cRoot + "/namespace") {
			fake.Del(k)
		}
	}()
	key := string(kit.NewRand(c.State ^ 0x5bd1e995).Bytes(c.KeyLen))
	cfg := &models.CCConfig{CoordinatorType: models.ConfigEtcd, CoordinatorAddr: fake.URL(), CoordinatorRoot: c33cRoot,
		ProxyUserName: "admin", ProxyPassword: "adminpw", EncryptKey: key, DefaultCluster: c33cCluster}
	cl, err := models.NewClient(models.ConfigEtcd, fake.URL(), "", "", c33cRoot)
	if err != nil {
		out.Rejected = "etcd client: " + err.Error()
		return
	}
	st := models.NewStore(cl)
	fail := func(clause string, err error) {
		for _, x := range out.Clauses {
			if x == clause {
				return
			}
		}
		out.Clauses = append(out.Clauses, clause)
		if err != nil {
			out.Errors = append(out.Errors, clause+": "+err.Error())
		}
	}
	// inForce: name -> configuration a proxy must get (nil = the namespace must be absent)
	check := func(step, name string, want *models.Namespace) {
		out.Steps++
		got, err := st.LoadNamespace(key, name)
		all, aerr := st.LoadNamespaces(key)
		if want == nil {
			if err == nil && got != nil {
				fail(step+":LoadNamespace:present-but-must-be-absent", nil)
			}
			if _, ok := all[st.NamespacePath(name)]; ok {
				fail(step+":LoadNamespaces:present-but-must-be-absent", nil)
			}
			return
		}
		if err != nil {
			fail(step+":LoadNamespace:load-error", err)
		} else if d := c33cDiff(got, want); d != "" {
			fail(step+":LoadNamespace:"+d, nil)
		}
		if aerr != nil {
			fail(step+":LoadNamespaces:load-error", aerr)
		} else if d := c33cDiff(all[st.NamespacePath(name)], want); d != "" {
			fail(step+":LoadNamespaces:"+d, nil)
		}
	}
	norm := func(n *models.Namespace) *models.Namespace {
		if err := n.Verify(); err != nil {
			return nil
		}
		return n
	}
	name := c33cGen(c, "", 1).Name
	if norm(c33cGen(c, "", 1)) == nil {
		out.Rejected = "verify"
		return
	}
	// 1. creation
	stub.fail("")
	if err := ModifyNamespace(c33cGen(c, "", 1), cfg, c33cCluster); err != nil {
		out.Rejected = "create: " + err.Error()
		return
	}
	check("create", name, norm(c33cGen(c, "", 1)))
	// 2. modification that a proxy refuses: rollback to version 1
	stub.fail(c.FailOp)
	if err := ModifyNamespace(c33cGen(c, "", 2), cfg, c33cCluster); err == nil {
		fail("modify-refused:reported-success", nil)
	}
	check("rollback", name, norm(c33cGen(c, "", 1)))
	// 3. the same modification accepted
	stub.fail("")
	if err := ModifyNamespace(c33cGen(c, "", 2), cfg, c33cCluster); err != nil {
		fail("modify:reported-failure", err)
	} else {
		check("modify", name, norm(c33cGen(c, "", 2)))
		// 4. fetched through the control plane, edited, submitted again
		fetched, err := QueryNamespace([]string{name}, cfg, c33cCluster)
		if err != nil || len(fetched) != 1 {
			fail("fetch:error", err)
		} else {
			f := fetched[0]
			f.MaxSqlExecuteTime += 7
			want4 := norm(c33cGen(c, "", 2))
			want4.MaxSqlExecuteTime += 7
			want4 = norm(want4) // the resubmitted document is verified once more
			if err := ModifyNamespace(f, cfg, c33cCluster); err != nil {
				if want4 != nil {
					fail("resubmit:reported-failure", err)
				}
			} else if want4 != nil {
				check("resubmit", name, want4)
				// 5. another refused modification on top of the resubmitted one
				stub.fail(c.FailOp)
				if err := ModifyNamespace(c33cGen(c, "", 3), cfg, c33cCluster); err == nil {
					fail("modify-refused-2:reported-success", nil)
				}
				check("rollback-2", name, want4)
			}
		}
	}
	// 6. a creation that a proxy refuses leaves nothing behind
	stub.fail(c.FailOp)
	other := c33cGen(c, "_x", 1)
	if err := ModifyNamespace(c33cGen(c, "_x", 1), cfg, c33cCluster); err == nil {
		fail("create-refused:reported-success", nil)
	}
	check("create-rollback", other.Name, nil)
	// 7. deletion
	stub.fail("")
	if err := DelNamespace(name, cfg, c33cCluster); err != nil {
		fail("delete:reported-failure", err)
	} else {
		check("delete", name, nil)
	}
	return
}

func c33cSig(c c33cCase, clauses []string) string {
	return fmt.Sprintf("ccpath|name=%s|cred=%s|keylen=%d|fail=%s|%s", c.NameCls, c.CredCls, c.KeyLen, c.FailOp, strings.Join(clauses, "+"))
}

func c33cWeaker(c c33cCase) []c33cCase {
	var out []c33cCase
	if c.NameCls != "plain" {
		d := c
		d.NameCls = "plain"
		out = append(out, d)
	}
	if c.CredCls != "ascii" {
		d := c
		d.CredCls = "ascii"
		out = append(out, d)
	}
	if c.KeyLen != 16 {
		d := c
		d.KeyLen = 16
		out = append(out, d)
	}
	if c.FailOp != "prepare" {
		d := c
		d.FailOp = "prepare"
		out = append(out, d)
	}
	return out
}

func TestVerif_C33c(t *testing.T) {
	rec := kit.Start("C33", "exploration",
		"part c (cc/service): per case (name class x credential class grid, key length 16/24/32, refusing phase prepare/commit) the real ModifyNamespace creates a namespace, is refused a "+
			"modification (rollback), applies it, the configuration is fetched with QueryNamespace, edited and resubmitted, refused again (rollback), a creation is refused, the namespace is deleted; "+
			"after every step the real Store.LoadNamespace / LoadNamespaces with the key must return the configuration in force; non-trivial = all steps ran; key = (name class, credential class, key length, refusing phase)")
	defer rec.Finish(t)
	rec.Assume("the registered proxy is a stub admin endpoint answering OK or an error reply; the coordinator is a protocol-level fake of the etcd v2 keys API")
	rec.Assume("is_encrypt is a storage flag and not part of the configuration; Verify's normalisation is taken as specification")
	log.SetGlobalLogger(c33cNullLog{})
	fake, err := cckit.NewFakeEtcd()
	if err != nil {
		rec.Inconclusive("fake etcd: " + err.Error())
		return
	}
	defer fake.Close()
	stub, err := c33cNewStub()
	if err != nil {
		rec.Inconclusive("stub: " + err.Error())
		return
	}
	defer stub.ln.Close()
	_, port, _ := net.SplitHostPort(stub.ln.Addr().String())
	reg, _ := json.Marshal(map[string]interface{}{"token": "127.0.0.1:stub", "ip": "127.0.0.1", "admin_port": port, "proxy_port": "0"})
	fake.Put(c33cRoot+"/proxy/proxy-127.0.0.1:stub", string(reg))

	shrunk := map[string]c33cOutcome{}
	report := func(o c33cOutcome) {
		ck := c33cSig(o.Case, o.Clauses)
		cur, ok := shrunk[ck]
		if !ok {
			cur = o
			for changed := true; changed; {
				changed = false
				for _, w := range c33cWeaker(cur.Case) {
					wo := c33cRun(fake, stub, w)
					if len(wo.Clauses) > 0 {
						cur, changed = wo, true
						break
					}
				}
			}
			shrunk[ck] = cur
		}
		rec.Violation(c33cSig(cur.Case, cur.Clauses), fmt.Sprintf("name class %s, credential class %s, key length %d, proxy refuses %s: %s %v",
			cur.Case.NameCls, cur.Case.CredCls, cur.Case.KeyLen, cur.Case.FailOp, strings.Join(cur.Clauses, ", "), cur.Errors), cur)
	}
	if p := kit.ReplayPath(); p != "" {
		var o c33cOutcome
		if err := kit.LoadReplay(p, &o); err != nil || o.Case.Part != "ccpath" {
			// a witness of another part of C33; this part runs its plain baseline case
			o.Case = c33cCase{Part: "ccpath", State: 1, NameCls: "plain", CredCls: "ascii", KeyLen: 16, FailOp: "prepare"}
		}
		out := c33cRun(fake, stub, o.Case)
		rec.Eval(1)
		rec.Sample(out)
		if len(out.Clauses) > 0 {
			report(out)
		}
		return
	}
	r := kit.SubRand(kit.Seed(), "C33c/ccpath")
	total := kit.N(220, 3000)
	for i := 0; i < total; i++ {
		c := c33cCase{Part: "ccpath", State: r.Uint64(), KeyLen: []int{16, 24, 32}[r.Intn(3)], FailOp: []string{"prepare", "commit"}[i%2]}
		c.NameCls = c33cNameClasses[(i/2)%len(c33cNameClasses)]
		c.CredCls = c33cCredClasses[(i/2/len(c33cNameClasses))%len(c33cCredClasses)]
		o := c33cRun(fake, stub, c)
		rec.Eval(1)
		rec.Count("ccpath.cases", 1)
		if o.Rejected != "" {
			rec.Count("ccpath.rejected", 1)
			rec.Set("ccpath.last_rejection", o.Rejected)
			continue
		}
		rec.Count("ccpath.steps_checked", int64(o.Steps))
		rec.Nontrivial(fmt.Sprintf("ccpath|%s|%s|%d|%s", c.NameCls, c.CredCls, c.KeyLen, c.FailOp))
		if i%29 == 0 {
			rec.Sample(o)
		}
		if len(o.Clauses) > 0 {
			rec.Count("ccpath.refuted", 1)
			report(o)
		}
	}
	stub.mu.Lock()
	for k, v := range stub.requests {
		rec.Count("stub."+k, int64(v))
	}
	stub.mu.Unlock()
	if rec.CounterValue("ccpath.steps_checked") == 0 {
		rec.Inconclusive("no case ran its steps (every case was rejected: " + fmt.Sprint(rec.CounterValue("ccpath.rejected")) + ")")
	}
}
