package service

// C32 — a namespace change is applied on all proxies or on none.
//
// Rig R5: a fake etcd v2 keys API on loopback (verifkit/cc), up to three REAL proxies
// (proxy/server.NewServer + LoadAndCreateManager: real Manager, real admin HTTP handlers,
// registered in the fake etcd by the real registerProxy) whose registration records are
// re-pointed at fault-injecting reverse shims, and the REAL ModifyNamespace / DelNamespace
// of this package talking to them through the real cc/proxy HTTP client.
//
// Oracle (from the property text): the call reports success  => every registered proxy
// runs the new configuration and the store holds it; the call reports failure => the
// store and every proxy's running configuration are the previous ones. Bystander
// namespaces must stay what they were in both cases.
//
// The monitor lives in cc/service (not proxy/server): cc/service can import proxy/server
// without a cycle, and everything it needs from there is exported (NewServer,
// LoadAndCreateManager, Manager.GetNamespace / CheckUser, Namespace.GetMaxExecuteTime).
// One process can host only one full Manager (CreateStatisticManager registers process-wide
// metrics and panics the second time), so every proxy runs in its OWN child process: the
// test binary re-executed with C32_CHILD set, which starts the real proxy and additionally
// serves a tiny observation endpoint (what Manager.GetNamespace / CheckUser answer).

import (
	"bufio"
	"encoding/json"
	"fmt"
	"io"
	"io/ioutil"
	"net"
	"net/http"
	"net/url"
	"os"
	"os/exec"
	"reflect"
	"sort"
	"strings"
	"sync"
	"testing"
	"time"

	"github.com/XiaoMi/Gaea/log"
	"github.com/XiaoMi/Gaea/models"
	"github.com/XiaoMi/Gaea/proxy/server"
	kit "github.com/XiaoMi/Gaea/verifkit"
	cckit "github.com/XiaoMi/Gaea/verifkit/cc"
	"github.com/gin-gonic/gin"
)

const (
	c32Root      = "/c32"
	c32Cluster   = "c32"
	c32Key       = "1234abcd5678efg*"
	c32AdminUser = "admin"
	c32AdminPass = "adminpw"
	c32Bystander = "c32_bystander"
	c32V0        = 1000 // max_sql_execute_time of the previous configuration
	c32V1        = 2000 // of the new one
)

// ---- quiet logger (the default global logger prints every debug line to stdout) ----

type c32NullLog struct{}

func (c32NullLog) SetLevel(name, level string) error                    { return nil }
func (c32NullLog) Debug(format string, a ...interface{}) error          { return nil }
func (c32NullLog) Trace(format string, a ...interface{}) error          { return nil }
func (c32NullLog) Notice(format string, a ...interface{}) error         { return nil }
func (c32NullLog) Warn(format string, a ...interface{}) error           { return nil }
func (c32NullLog) Fatal(format string, a ...interface{}) error          { return nil }
func (c32NullLog) Debugx(logID, format string, a ...interface{}) error  { return nil }
func (c32NullLog) Tracex(logID, format string, a ...interface{}) error  { return nil }
func (c32NullLog) Noticex(logID, format string, a ...interface{}) error { return nil }
func (c32NullLog) Warnx(logID, format string, a ...interface{}) error   { return nil }
func (c32NullLog) Fatalx(logID, format string, a ...interface{}) error  { return nil }
func (c32NullLog) Close()                                               {}
func (c32NullLog) Dropped(i int) uint64                                 { return 0 }

// ---- fault space ----

// Fault kinds per (proxy, phase). "pingfail" is the failure of the ping that the control
// plane sends before the phase's own request; "refuse" an error reply before the proxy
// acts; "drop" act-then-drop (the emulated timeout). The "1" variants hit only the first
// attempt (prepare is retried up to 3 times by the control plane).
const (
	c32OK       = "ok"
	c32PingFail = "pingfail"
	c32Refuse   = "refuse"
	c32Drop     = "drop"
	c32Refuse1  = "refuse1"
	c32Drop1    = "drop1"
)

var c32Persistent = []string{c32OK, c32PingFail, c32Refuse, c32Drop}
var c32PrepareKinds = []string{c32OK, c32PingFail, c32Refuse, c32Drop, c32Refuse1, c32Drop1}

// c32PF is the fault vector of one proxy: P on the prepare phase (or the delete request for
// kind delete), C on the commit phase (unused for delete).
type c32PF struct {
	P string `json:"p"`
	C string `json:"c,omitempty"`
}

type c32Case struct {
	Kind    string  `json:"kind"` // create | modify | delete | concurrent
	Proxies []c32PF `json:"proxies"`
	// Schedule (kind concurrent only): order in which the admin requests of the two changes
	// A and B are let through on every proxy, e.g. ["pA","pB","cA","cB"].
	Schedule []string `json:"schedule,omitempty"`
	// Kinds (kind concurrent only): the kinds of the two overlapping changes A and B
	// (create | modify | delete); empty = two modifications. Events of the schedule: "pA" /
	// "cA" = prepare / commit request of change A, "dB" = delete request of change B.
	Kinds []string `json:"kinds,omitempty"`
}

func (c c32Case) kindOf(k int) string {
	if c.Kind != "concurrent" {
		return c.Kind
	}
	if k < len(c.Kinds) {
		return c.Kinds[k]
	}
	return "modify"
}

func (c c32Case) key() string {
	b, _ := json.Marshal(c)
	return string(b)
}

func (c c32Case) faulty() bool {
	for _, p := range c.Proxies {
		if p.P != c32OK || (p.C != c32OK && p.C != "") {
			return true
		}
	}
	return false
}

// ---- rig ----

type c32Proxy struct {
	idx       int
	cmd       *exec.Cmd
	stdin     io.WriteCloser
	shim      *cckit.Shim
	adminAddr string
	obsAddr   string
	regKey    string // etcd key of the registration record
	regVal    string // record re-pointed at the shim
}

type c32Rig struct {
	etcd    *cckit.FakeEtcd
	proxies []*c32Proxy
	ccCfg   *models.CCConfig
	tmp     string
	seq     int
	rec     *kit.Rec
}

func c32FreePort() (string, error) {
	l, err := net.Listen("tcp4", "127.0.0.1:0")
	if err != nil {
		return "", err
	}
	_, p, _ := net.SplitHostPort(l.Addr().String())
	l.Close()
	return p, nil
}

func c32Namespace(name string, version int) *models.Namespace {
	return &models.Namespace{
		Name:              name,
		Online:            true,
		AllowedDBS:        map[string]bool{"db_" + name: true},
		SlowSQLTime:       "1000",
		Users:             []*models.User{{UserName: fmt.Sprintf("u_%s_v%d", name, version), Password: fmt.Sprintf("pw_%s_v%d", name, version), Namespace: name, RWFlag: 2, RWSplit: 0}},
		Slices:            []*models.Slice{{Name: "slice-0", UserName: "backend", Password: "backendpw", Master: "127.0.0.1:1#dc1", Capacity: 1, MaxCapacity: 1, IdleTimeout: 60}},
		DefaultSlice:      "slice-0",
		MaxSqlExecuteTime: version,
		DownAfterNoAlive:  3600,
	}
}

func (r *c32Rig) store() (*models.Store, error) {
	cl, err := models.NewClient(models.ConfigEtcd, r.etcd.URL(), "", "", c32Root)
	if err != nil {
		return nil, err
	}
	return models.NewStore(cl), nil
}

// storePut writes a namespace exactly as the control plane does (Verify, Encrypt, Update).
func (r *c32Rig) storePut(ns *models.Namespace) error {
	st, err := r.store()
	if err != nil {
		return err
	}
	defer st.Close()
	cp := c32Clone(ns)
	if err := cp.Verify(); err != nil {
		return err
	}
	if err := cp.Encrypt(c32Key); err != nil {
		return err
	}
	return st.UpdateNamespace(cp)
}

func c32Clone(ns *models.Namespace) *models.Namespace {
	b, _ := json.Marshal(ns)
	out := &models.Namespace{}
	json.Unmarshal(b, out)
	return out
}

func c32NewRig(rec *kit.Rec, n int) (*c32Rig, error) {
	r := &c32Rig{rec: rec}
	var err error
	if r.tmp, err = ioutil.TempDir("", "c32_"); err != nil {
		return nil, err
	}
	if r.etcd, err = cckit.NewFakeEtcd(); err != nil {
		return nil, err
	}
	r.ccCfg = &models.CCConfig{CoordinatorType: models.ConfigEtcd, CoordinatorAddr: r.etcd.URL(), CoordinatorRoot: c32Root,
		ProxyUserName: c32AdminUser, ProxyPassword: c32AdminPass, EncryptKey: c32Key, DefaultCluster: c32Cluster}
	if err = r.storePut(c32Namespace(c32Bystander, c32V0)); err != nil {
		return nil, fmt.Errorf("bystander: %v", err)
	}
	for i := 0; i < n; i++ {
		p, err := r.newProxy(i)
		if err != nil {
			return nil, fmt.Errorf("proxy %d: %v", i, err)
		}
		r.proxies = append(r.proxies, p)
	}
	return r, nil
}

// c32ChildInfo is the line a child prints once its proxy is up.
type c32ChildInfo struct {
	Admin     string `json:"admin"`
	ProxyPort string `json:"proxy_port"`
	Obs       string `json:"obs"`
	Err       string `json:"err,omitempty"`
}

const c32ChildMark = "C32CHILD "

// c32ChildMain is the body of a proxy process: real LoadAndCreateManager + NewServer + Run
// against the fake etcd of the parent, plus the observation endpoint. It ends when its
// stdin is closed (the parent finished or died).
func c32ChildMain() {
	log.SetGlobalLogger(c32NullLog{})
	gin.SetMode(gin.ReleaseMode)
	etcdURL, tmp, idx := os.Getenv("C32_ETCD"), os.Getenv("C32_TMP"), os.Getenv("C32_CHILD")
	fail := func(err error) {
		b, _ := json.Marshal(c32ChildInfo{Err: err.Error()})
		fmt.Println(c32ChildMark + string(b))
		os.Exit(3)
	}
	var srv *server.Server
	var mgr *server.Manager
	var cfg *models.Proxy
	var pp string
	var lastErr error
	for attempt := 0; attempt < 5 && srv == nil; attempt++ {
		var err error
		if pp, err = c32FreePort(); err != nil {
			fail(err)
		}
		ap, err := c32FreePort()
		if err != nil {
			fail(err)
		}
		dir := fmt.Sprintf("%s/p%s_%d", tmp, idx, attempt)
		os.MkdirAll(dir, 0o755)
		cfg = &models.Proxy{ConfigType: models.ConfigEtcd, CoordinatorAddr: etcdURL, CoordinatorRoot: c32Root,
			Service: "gaea_proxy", Cluster: c32Cluster, Environ: "local",
			LogPath: dir, LogLevel: "Notice", LogFileName: "gaea", LogOutput: "file",
			ProtoType: "tcp4", ProxyAddr: "127.0.0.1:" + pp, AdminAddr: "127.0.0.1:" + ap, AdminUser: c32AdminUser, AdminPassword: c32AdminPass,
			SlowSQLTime: 100000, SessionTimeout: 3600, StatsEnabled: "false", StatsInterval: 3600,
			EncryptKey: c32Key, ServerVersion: "5.7.25-gaea"}
		if mgr == nil {
			if mgr, err = server.LoadAndCreateManager(cfg); err != nil {
				fail(fmt.Errorf("LoadAndCreateManager: %v", err))
			}
		}
		if srv, err = server.NewServer(cfg, mgr); err != nil {
			lastErr, srv = err, nil
		}
	}
	if srv == nil {
		fail(fmt.Errorf("NewServer: %v", lastErr))
	}
	go srv.Run()
	ol, err := net.Listen("tcp4", "127.0.0.1:0")
	if err != nil {
		fail(err)
	}
	go http.Serve(ol, http.HandlerFunc(func(w http.ResponseWriter, r *http.Request) {
		name := r.URL.Query().Get("name")
		o := c32Obs{Version: -1}
		if ns := mgr.GetNamespace(name); ns != nil {
			o.Version = ns.GetMaxExecuteTime()
		}
		o.UserV0 = mgr.CheckUser(fmt.Sprintf("u_%s_v%d", name, c32V0))
		o.UserV1 = mgr.CheckUser(fmt.Sprintf("u_%s_v%d", name, c32V1))
		b, _ := json.Marshal(o)
		w.Write(b)
	}))
	b, _ := json.Marshal(c32ChildInfo{Admin: cfg.AdminAddr, ProxyPort: pp, Obs: ol.Addr().String()})
	fmt.Println(c32ChildMark + string(b))
	io.Copy(ioutil.Discard, os.Stdin)
	os.Exit(0)
}

func (r *c32Rig) newProxy(i int) (*c32Proxy, error) {
	cmd := exec.Command(os.Args[0], "-test.run", "^TestVerif_C32$", "-test.count=1", "-test.timeout=0")
	cmd.Env = append(os.Environ(), fmt.Sprintf("C32_CHILD=%d", i), "C32_ETCD="+r.etcd.URL(), "C32_TMP="+r.tmp)
	if ef, err := os.Create(fmt.Sprintf("c32_child_%d.stderr", i)); err == nil { // cwd = $VERIF_RUNDIR
		cmd.Stderr = ef
		defer ef.Close()
	}
	stdin, err := cmd.StdinPipe()
	if err != nil {
		return nil, err
	}
	stdout, err := cmd.StdoutPipe()
	if err != nil {
		return nil, err
	}
	if err := cmd.Start(); err != nil {
		return nil, err
	}
	p := &c32Proxy{idx: i, cmd: cmd, stdin: stdin}
	infoCh := make(chan c32ChildInfo, 1)
	go func() {
		sc := bufio.NewScanner(stdout)
		sc.Buffer(make([]byte, 1<<20), 1<<20)
		sent := false
		for sc.Scan() {
			ln := sc.Text()
			if !sent && strings.HasPrefix(ln, c32ChildMark) {
				var ci c32ChildInfo
				if err := json.Unmarshal([]byte(ln[len(c32ChildMark):]), &ci); err != nil {
					ci.Err = "bad child line: " + ln
				}
				infoCh <- ci
				sent = true
			}
		}
		if !sent {
			infoCh <- c32ChildInfo{Err: "child ended without reporting its addresses"}
		}
	}()
	var ci c32ChildInfo
	select {
	case ci = <-infoCh:
	case <-time.After(120 * time.Second):
		p.kill()
		return nil, fmt.Errorf("child did not come up within 120 s")
	}
	if ci.Err != "" {
		p.kill()
		return nil, fmt.Errorf("child: %s", ci.Err)
	}
	p.adminAddr, p.obsAddr = ci.Admin, ci.Obs
	if p.shim, err = cckit.NewShim(i, ci.Admin); err != nil {
		return nil, err
	}
	p.regKey = c32Root + "/proxy/proxy-127.0.0.1:" + ci.ProxyPort
	raw, ok := r.etcd.Get(p.regKey)
	if !ok {
		return nil, fmt.Errorf("proxy did not register under %s (keys %v)", p.regKey, r.etcd.Keys(c32Root+"/proxy"))
	}
	var m map[string]interface{}
	if err := json.Unmarshal([]byte(raw), &m); err != nil {
		return nil, err
	}
	m["admin_port"] = p.shim.Port()
	b, _ := json.Marshal(m)
	p.regVal = string(b)
	// wait until the admin endpoint answers (Server.Run starts it asynchronously)
	for k := 0; k < 2000; k++ {
		if err = p.direct("GET", "/api/proxy/ping"); err == nil {
			return p, nil
		}
		time.Sleep(5 * time.Millisecond)
	}
	return nil, fmt.Errorf("admin endpoint %s never answered: %v", ci.Admin, err)
}

func (p *c32Proxy) kill() {
	if p.stdin != nil {
		p.stdin.Close()
	}
	done := make(chan struct{})
	go func() { p.cmd.Wait(); close(done) }()
	select {
	case <-done:
	case <-time.After(5 * time.Second):
		p.cmd.Process.Kill()
		<-done
	}
}

func (r *c32Rig) close() {
	for _, p := range r.proxies {
		if p.shim != nil {
			p.shim.Close()
		}
		p.kill()
	}
	r.etcd.Close()
	os.RemoveAll(r.tmp)
}

// heal replaces proxy processes that have died (observed on the unchanged tree: the proxy's
// metrics task and the prepare handler share a map without synchronisation).
func (r *c32Rig) heal() (restarted int, err error) {
	for i, p := range r.proxies {
		if p.direct("GET", "/api/proxy/ping") == nil && p.observe(c32Bystander).Version != -3 {
			continue
		}
		if p.shim != nil {
			p.shim.Close()
		}
		p.kill()
		r.etcd.Del(p.regKey)
		np, err := r.newProxy(i)
		if err != nil {
			return restarted, err
		}
		r.proxies[i] = np
		restarted++
	}
	return restarted, nil
}

// register makes exactly the first n proxies visible to the control plane.
func (r *c32Rig) register(n int) {
	for i, p := range r.proxies {
		if i < n {
			r.etcd.Put(p.regKey, p.regVal)
		} else {
			r.etcd.Del(p.regKey)
		}
	}
}

// direct sends an admin request straight to the real admin endpoint (no shim, no faults).
func (p *c32Proxy) direct(method, path string) error {
	req, _ := http.NewRequest(method, "http://"+p.adminAddr+path, nil)
	req.SetBasicAuth(c32AdminUser, c32AdminPass)
	resp, err := http.DefaultClient.Do(req)
	if err != nil {
		return err
	}
	b, _ := ioutil.ReadAll(resp.Body)
	resp.Body.Close()
	if resp.StatusCode != 200 {
		return fmt.Errorf("%s %s: status %d %s", method, path, resp.StatusCode, string(b))
	}
	return nil
}

// ---- observation ----

// c32Obs is what one proxy runs for a namespace: version -1 = namespace absent.
type c32Obs struct {
	Version int  `json:"version"`
	UserV0  bool `json:"user_v0"`
	UserV1  bool `json:"user_v1"`
}

// observe asks the proxy process what it runs for the namespace (Version -3 = the process
// did not answer).
func (p *c32Proxy) observe(name string) c32Obs {
	o := c32Obs{Version: -3}
	resp, err := http.Get("http://" + p.obsAddr + "/obs?name=" + url.QueryEscape(name))
	if err != nil {
		return o
	}
	defer resp.Body.Close()
	b, _ := ioutil.ReadAll(resp.Body)
	if json.Unmarshal(b, &o) != nil {
		return c32Obs{Version: -3}
	}
	return o
}

func c32Want(version int) c32Obs {
	return c32Obs{Version: version, UserV0: version == c32V0, UserV1: version == c32V1}
}

// storeObserve decodes what the fake etcd holds for the namespace: -1 absent, -2 undecodable,
// otherwise the version, and whether the whole decrypted document equals the reference.
func (r *c32Rig) storeObserve(name string) (version int, exact bool) {
	raw, ok := r.etcd.Get(c32Root + "/namespace/" + name)
	if !ok {
		return -1, true
	}
	// loaded the way a proxy loads it: real Store.LoadNamespace (Unmarshal, Verify, Decrypt)
	// through the real etcd client; a stored document that cannot be loaded is "-2"
	_ = raw
	st, err := r.store()
	if err != nil {
		return -2, false
	}
	defer st.Close()
	ns, err := st.LoadNamespace(c32Key, name)
	if err != nil || ns == nil {
		return -2, false
	}
	want := c32Namespace(name, ns.MaxSqlExecuteTime)
	want.Verify()
	want.IsEncrypt = ns.IsEncrypt
	return ns.MaxSqlExecuteTime, reflect.DeepEqual(ns, want)
}

// ---- running one case ----

type c32Result struct {
	Case     c32Case           `json:"case"`
	Names    []string          `json:"names"`
	Errs     []string          `json:"errs"` // "" = success, per change
	Store    []int             `json:"store_version"`
	Proxies  [][]c32Obs        `json:"proxies"` // [change][proxy]
	Broken   []string          `json:"broken"`
	Events   map[string]int    `json:"events"`
	Precheck string            `json:"precheck,omitempty"`
	Extra    map[string]string `json:"extra,omitempty"`
}

func c32Fault(kind string, op string, attempt int) cckit.Fault {
	// attempt counts the requests of this op (ping or the phase's own request) seen so far
	// for this phase, starting at 0.
	switch kind {
	case c32PingFail:
		if op == "ping" {
			return cckit.FaultReset
		}
	case c32Refuse:
		if op != "ping" {
			return cckit.FaultRefuse
		}
	case c32Drop:
		if op != "ping" {
			return cckit.FaultDrop
		}
	case c32Refuse1:
		if op != "ping" && attempt == 0 {
			return cckit.FaultRefuse
		}
	case c32Drop1:
		if op != "ping" && attempt == 0 {
			return cckit.FaultDrop
		}
	}
	return cckit.FaultOK
}

// c32Gate lets the admin requests of two overlapping changes through in a fixed order. A
// schedule entry is an event ("pA" = prepare of change A, "cB" = commit of B, "dB" = delete
// request of B) for all proxies, or "pB@0,2" for the listed proxies only. A request may start
// only when every entry scheduled before its own has completed on all its proxies, or its
// change's control-plane call has returned.
type c32Gate struct {
	mu       sync.Mutex
	groups   []c32Group
	done     map[string]bool // "ev@proxy"
	count    map[string]int  // completions of "ev@proxy"
	need     map[string]int  // completions that make an event done (a refused prepare is tried 3 times)
	wake     chan struct{}
	timedOut bool
}

type c32Group struct {
	ev      string
	proxies []int
}

func c32NewGate(schedule []string, n int) *c32Gate {
	g := &c32Gate{done: map[string]bool{}, count: map[string]int{}, need: map[string]int{}, wake: make(chan struct{})}
	for _, e := range schedule {
		grp := c32Group{ev: e}
		if i := strings.Index(e, "@"); i >= 0 {
			grp.ev = e[:i]
			for _, f := range strings.Split(e[i+1:], ",") {
				var k int
				fmt.Sscan(f, &k)
				if k < n {
					grp.proxies = append(grp.proxies, k)
				}
			}
		} else {
			for k := 0; k < n; k++ {
				grp.proxies = append(grp.proxies, k)
			}
		}
		g.groups = append(g.groups, grp)
	}
	return g
}

func (g *c32Gate) broadcast() { // callers hold mu
	close(g.wake)
	g.wake = make(chan struct{})
}

func (g *c32Gate) groupOf(ev string, proxy int) int {
	for i, grp := range g.groups {
		if grp.ev != ev {
			continue
		}
		for _, p := range grp.proxies {
			if p == proxy {
				return i
			}
		}
	}
	return len(g.groups)
}

func (g *c32Gate) enter(ev string, proxy int) {
	watchdog := time.After(20 * time.Second) // firing => inconclusive, never a verdict
	for {
		g.mu.Lock()
		ready := true
		upto := g.groupOf(ev, proxy)
		for _, grp := range g.groups[:upto] {
			for _, p := range grp.proxies {
				if !g.done[fmt.Sprint(grp.ev, "@", p)] {
					ready = false
				}
			}
		}
		w := g.wake
		to := g.timedOut
		g.mu.Unlock()
		if ready || to {
			return
		}
		select {
		case <-w:
		case <-watchdog:
			g.mu.Lock()
			g.timedOut = true
			g.broadcast()
			g.mu.Unlock()
			return
		}
	}
}

func (g *c32Gate) leave(proxy int, ev string) {
	g.mu.Lock()
	k := fmt.Sprint(ev, "@", proxy)
	g.count[k]++
	if g.count[k] >= g.need[ev] {
		g.done[k] = true
	}
	g.broadcast()
	g.mu.Unlock()
}

// abandon marks every event of change x (A/B) done: its control-plane call has returned.
func (g *c32Gate) abandon(x string) {
	g.mu.Lock()
	for _, grp := range g.groups {
		if strings.HasSuffix(grp.ev, x) {
			for _, p := range grp.proxies {
				g.done[fmt.Sprint(grp.ev, "@", p)] = true
			}
		}
	}
	g.broadcast()
	g.mu.Unlock()
}

// run executes one case on the long-lived rig and returns observations plus the broken
// oracle clauses (empty = property held on this case).
func (r *c32Rig) run(c c32Case) (res c32Result, inconclusive string) {
	r.seq++
	res.Case = c
	res.Events = map[string]int{}
	n := len(c.Proxies)
	if n > len(r.proxies) {
		return res, "case wants more proxies than the rig has"
	}
	r.register(n)
	act := r.proxies[:n]
	nChanges := 1
	if c.Kind == "concurrent" {
		nChanges = 2
	}
	// Two fixed namespace names are reused by all cases (removed everywhere after each case
	// and checked absent/previous before the next): a proxy that is told to prepare a name
	// it has never seen writes the unsynchronised Manager.statistics.SQLResponsePercentile
	// map, which the proxy's own metrics task iterates for >= 1 ms per entry; with a fresh
	// name per case the proxy processes regularly died with "concurrent map iteration and
	// map write" (a defect of the proxy outside this property, see heal()).
	for k := 0; k < nChanges; k++ {
		res.Names = append(res.Names, fmt.Sprintf("c32ns_%c", 'a'+k))
	}
	// kind of each change and its previous version
	kinds := make([]string, nChanges)
	prev := make([]int, nChanges)
	for k := range kinds {
		kinds[k] = c.kindOf(k)
		prev[k] = c32V0
		if kinds[k] == "create" || kinds[k] == "createbad" {
			prev[k] = -1
		}
	}

	// ---- set-up through the real, fault-free path; verified by observation ----
	for _, p := range r.proxies {
		p.shim.SetDecide(nil)
	}
	for k, name := range res.Names {
		if prev[k] == -1 {
			continue
		}
		if err := r.storePut(c32Namespace(name, c32V0)); err != nil {
			return res, "set-up: store put failed: " + err.Error()
		}
		for _, p := range act {
			if err := p.direct("PUT", "/api/proxy/config/prepare/"+name); err != nil {
				return res, "set-up: prepare failed: " + err.Error()
			}
			if err := p.direct("PUT", "/api/proxy/config/commit/"+name); err != nil {
				return res, "set-up: commit failed: " + err.Error()
			}
		}
	}
	for k, name := range res.Names {
		sv, exact := r.storeObserve(name)
		if sv != prev[k] || !exact {
			return res, fmt.Sprintf("set-up: store holds version %d (exact %v) for %s, want %d", sv, exact, name, prev[k])
		}
		for _, p := range act {
			if o := p.observe(name); o != c32Want(prev[k]) {
				return res, fmt.Sprintf("set-up: proxy %d runs %+v for %s, want version %d", p.idx, o, name, prev[k])
			}
		}
	}
	for _, p := range act {
		if o := p.observe(c32Bystander); o != c32Want(c32V0) {
			return res, fmt.Sprintf("set-up: proxy %d runs %+v for the bystander", p.idx, o)
		}
	}

	// ---- fault policy ----
	var gate *c32Gate
	if c.Kind == "concurrent" {
		gate = c32NewGate(c.Schedule, n)
		for k := 0; k < nChanges; k++ {
			if kinds[k] == "modifybad" || kinds[k] == "createbad" {
				gate.need["p"+string(rune('A'+k))] = PREPARE_RETRY_TIMES
			}
		}
	}
	var mu sync.Mutex
	type pstate struct {
		preparedOK map[string]bool // namespace -> a prepare reply was delivered OK
		attempts   map[string]int  // phase/op/name -> count
	}
	states := make([]*pstate, n)
	for i := range states {
		states[i] = &pstate{preparedOK: map[string]bool{}, attempts: map[string]int{}}
	}
	evName := func(q cckit.ShimRequest) string {
		if gate == nil || (q.Op != "prepare" && q.Op != "commit" && q.Op != "delete") {
			return ""
		}
		x := "A"
		if q.Name == res.Names[1] {
			x = "B"
		}
		return string(q.Op[0]) + x
	}
	for i := range act {
		i := i
		pf := c.Proxies[i]
		act[i].shim.SetDecide(func(q cckit.ShimRequest) cckit.Fault {
			mu.Lock()
			st := states[i]
			// which phase does this request belong to?
			phase := "P"
			switch q.Op {
			case "commit":
				phase = "C"
			case "ping":
				// pings carry no namespace: a ping belongs to the commit phase once a prepare
				// reply was delivered OK by this shim (faults exist in single-change cases only)
				if len(st.preparedOK) > 0 {
					phase = "C"
				}
			}
			kind := pf.P
			if phase == "C" {
				kind = pf.C
			}
			ak := phase + "/" + q.Op + "/" + q.Name
			att := st.attempts[ak]
			st.attempts[ak]++
			f := c32Fault(kind, q.Op, att)
			if q.Op == "prepare" && f == cckit.FaultOK {
				st.preparedOK[q.Name] = true
			}
			res.Events[q.Op+":"+f.String()]++
			mu.Unlock()
			if ev := evName(q); ev != "" {
				gate.enter(ev, i)
			}
			return f
		})
		act[i].shim.SetAfter(func(e cckit.ShimEvent) {
			if ev := evName(e.Req); ev != "" {
				gate.leave(i, ev)
			}
		})
	}

	// ---- the real control-plane call(s), under a generous watchdog ----
	errs := make([]error, nChanges)
	var wg sync.WaitGroup
	for k := range res.Names {
		k := k
		wg.Add(1)
		go func() {
			defer wg.Done()
			switch kinds[k] {
			case "delete":
				errs[k] = DelNamespace(res.Names[k], r.ccCfg, c32Cluster)
			case "modifybad", "createbad":
				// accepted by models.Namespace.Verify, refused by the proxies' NewNamespace at
				// prepare (down_after_no_alive < 0): a real refusal, not a shim fault
				bad := c32Namespace(res.Names[k], c32V1)
				bad.DownAfterNoAlive = -1
				errs[k] = ModifyNamespace(bad, r.ccCfg, c32Cluster)
			default:
				errs[k] = ModifyNamespace(c32Namespace(res.Names[k], c32V1), r.ccCfg, c32Cluster)
			}
			if gate != nil {
				gate.abandon(string(rune('A' + k)))
			}
		}()
	}
	doneCh := make(chan struct{})
	go func() { wg.Wait(); close(doneCh) }()
	select {
	case <-doneCh:
	case <-time.After(300 * time.Second):
		return res, "watchdog: the control-plane call did not return within 300 s"
	}
	if gate != nil && gate.timedOut {
		return res, "watchdog: the request gate waited 20 s for a scheduled request"
	}
	for _, p := range r.proxies {
		p.shim.SetDecide(nil)
	}

	// ---- observation and oracle ----
	for k, name := range res.Names {
		es := ""
		if errs[k] != nil {
			es = errs[k].Error()
			if es == "" {
				es = "error"
			}
		}
		res.Errs = append(res.Errs, es)
		sv, exact := r.storeObserve(name)
		res.Store = append(res.Store, sv)
		var obs []c32Obs
		for _, p := range act {
			obs = append(obs, p.observe(name))
		}
		res.Proxies = append(res.Proxies, obs)
		next := c32V1
		if kinds[k] == "delete" {
			next = -1
		}
		tag := ""
		if nChanges > 1 {
			tag = fmt.Sprintf("[%c]", 'A'+k)
		}
		if errs[k] == nil {
			if sv != next || !exact {
				res.Broken = append(res.Broken, "ok:store-not-new"+tag)
			}
			for _, o := range obs {
				if o != c32Want(next) {
					res.Broken = append(res.Broken, "ok:proxy-not-new"+tag)
					break
				}
			}
		} else {
			if sv != prev[k] || !exact {
				res.Broken = append(res.Broken, "fail:store-changed"+tag)
			}
			fp, hp := false, false
			for i, o := range obs {
				if o != c32Want(prev[k]) {
					pf := c.Proxies[i]
					if pf.P != c32OK || (pf.C != c32OK && pf.C != "") {
						fp = true
					} else {
						hp = true
					}
				}
			}
			if fp {
				res.Broken = append(res.Broken, "fail:faulty-proxy-changed"+tag)
			}
			if hp {
				res.Broken = append(res.Broken, "fail:healthy-proxy-changed"+tag)
			}
		}
	}
	for _, p := range act {
		if o := p.observe(c32Bystander); o != c32Want(c32V0) {
			res.Broken = append(res.Broken, "bystander-changed")
			break
		}
	}
	if sv, exact := r.storeObserve(c32Bystander); sv != c32V0 || !exact {
		res.Broken = append(res.Broken, "bystander-store-changed")
	}
	if nChanges > 1 {
		// after BOTH operations have finished: whatever was reported, every proxy must run,
		// for each namespace, exactly what the store holds (absent = absent)
		for k, name := range res.Names {
			sv, _ := r.storeObserve(name)
			for _, p := range act {
				if o := p.observe(name); o != c32Want(sv) {
					res.Broken = append(res.Broken, fmt.Sprintf("final:proxy-differs-from-store[%c]", 'A'+k))
					break
				}
			}
		}
	}
	sort.Strings(res.Broken)

	// ---- clean-up: remove the case's namespaces everywhere, verified ----
	for _, name := range res.Names {
		r.etcd.Del(c32Root + "/namespace/" + name)
		for _, p := range r.proxies {
			if err := p.direct("PUT", "/api/proxy/namespace/delete/"+name); err != nil {
				return res, "clean-up: delete failed: " + err.Error()
			}
			if o := p.observe(name); o.Version != -1 {
				return res, fmt.Sprintf("clean-up: proxy %d answers %+v after delete", p.idx, o)
			}
		}
	}
	// the bystander may have been lost by a defect of the proxy (C31 family): restore it so
	// that later cases start from the stated precondition
	for _, p := range r.proxies {
		if o := p.observe(c32Bystander); o != c32Want(c32V0) {
			if err := p.direct("PUT", "/api/proxy/config/prepare/"+c32Bystander); err != nil {
				return res, "clean-up: bystander prepare failed: " + err.Error()
			}
			if err := p.direct("PUT", "/api/proxy/config/commit/"+c32Bystander); err != nil {
				return res, "clean-up: bystander commit failed: " + err.Error()
			}
		}
	}
	return res, ""
}

// ---- canonical signature ----

func (pf c32PF) String() string {
	s := "P=" + pf.P
	if pf.C != "" {
		s += ",C=" + pf.C
	}
	return s
}

// c32Sig: change kind | number of proxies | sorted per-proxy fault vectors | schedule |
// broken oracle clauses. Proxies are interchangeable, so the vectors are sorted.
func c32Sig(c c32Case, broken []string) string {
	var ps []string
	for _, p := range c.Proxies {
		ps = append(ps, p.String())
	}
	sort.Strings(ps)
	kind := c.Kind
	if c.Kind == "concurrent" {
		kind = "concurrent(" + c.kindOf(0) + "+" + c.kindOf(1) + ")"
	}
	s := kind + "|n=" + fmt.Sprint(len(c.Proxies)) + "|" + strings.Join(ps, ";")
	if len(c.Schedule) > 0 {
		s += "|" + strings.Join(c.Schedule, ">")
	}
	return s + "|" + strings.Join(broken, "+")
}

// c32Weaker lists the one-step simplifications of a case: drop a proxy, or turn one fault
// into ok / a "1" (first attempt only) fault into nothing.
func c32Weaker(c c32Case) []c32Case {
	var out []c32Case
	if len(c.Proxies) > 1 && !strings.Contains(strings.Join(c.Schedule, " "), "@") {
		for i := range c.Proxies {
			d := c32Case{Kind: c.Kind, Schedule: c.Schedule, Kinds: c.Kinds}
			d.Proxies = append(append([]c32PF{}, c.Proxies[:i]...), c.Proxies[i+1:]...)
			out = append(out, d)
		}
	}
	for i, p := range c.Proxies {
		if p.P != c32OK {
			d := c32Case{Kind: c.Kind, Schedule: c.Schedule, Kinds: c.Kinds, Proxies: append([]c32PF{}, c.Proxies...)}
			d.Proxies[i].P = c32OK
			out = append(out, d)
		}
		if p.C != c32OK && p.C != "" {
			d := c32Case{Kind: c.Kind, Schedule: c.Schedule, Kinds: c.Kinds, Proxies: append([]c32PF{}, c.Proxies...)}
			d.Proxies[i].C = c32OK
			out = append(out, d)
		}
	}
	return out
}

// ---- case space ----

// c32Vectors enumerates the fault placements of one change kind over n proxies. With
// ordered=false only one representative per multiset of per-proxy vectors is produced
// (proxies are interchangeable: the control plane addresses them concurrently / in map
// order), with ordered=true every placement.
func c32Vectors(kind string, n int, prepKinds []string, ordered bool) []c32Case {
	var per []c32PF
	if kind == "delete" {
		for _, p := range c32Persistent {
			per = append(per, c32PF{P: p})
		}
	} else {
		for _, p := range prepKinds {
			for _, cc := range c32Persistent {
				per = append(per, c32PF{P: p, C: cc})
			}
		}
	}
	var out []c32Case
	idx := make([]int, n)
	for {
		keep := true
		if !ordered {
			for i := 1; i < n; i++ {
				if idx[i] < idx[i-1] {
					keep = false
				}
			}
		}
		if keep {
			c := c32Case{Kind: kind}
			for _, k := range idx {
				c.Proxies = append(c.Proxies, per[k])
			}
			out = append(out, c)
		}
		i := 0
		for i < n {
			idx[i]++
			if idx[i] < len(per) {
				break
			}
			idx[i] = 0
			i++
		}
		if i == n {
			break
		}
	}
	return out
}

// c32Events: the proxy requests of one change of the given kind, in the control plane's order.
func c32Events(kind, x string) []string {
	if kind == "delete" {
		return []string{"d" + x}
	}
	if kind == "modifybad" || kind == "createbad" {
		return []string{"p" + x} // the prepare is refused by every proxy, no commit follows
	}
	return []string{"p" + x, "c" + x}
}

// c32Interleavings merges two event sequences in every order-preserving way.
func c32Interleavings(a, b []string) [][]string {
	if len(a) == 0 {
		return [][]string{append([]string{}, b...)}
	}
	if len(b) == 0 {
		return [][]string{append([]string{}, a...)}
	}
	var out [][]string
	for _, r := range c32Interleavings(a[1:], b) {
		out = append(out, append([]string{a[0]}, r...))
	}
	for _, r := range c32Interleavings(a, b[1:]) {
		out = append(out, append([]string{b[0]}, r...))
	}
	return out
}

// c32ConcurrentCases: every unordered pair of change kinds on two different namespaces x
// every interleaving of their proxy requests (for two changes of the same kind up to renaming
// them: A's first request comes first) x n interchangeable fault-free proxies.
func c32ConcurrentCases(n int) []c32Case {
	kinds := []string{"modify", "create", "delete"}
	var out []c32Case
	for i, ka := range kinds {
		for _, kb := range kinds[i:] {
			for _, sch := range c32Interleavings(c32Events(ka, "A"), c32Events(kb, "B")) {
				if ka == kb && strings.HasSuffix(sch[0], "B") {
					continue
				}
				c := c32Case{Kind: "concurrent", Kinds: []string{ka, kb}, Schedule: sch}
				for p := 0; p < n; p++ {
					c.Proxies = append(c.Proxies, c32PF{P: c32OK, C: c32OK})
				}
				if ka == "delete" {
					for p := range c.Proxies {
						c.Proxies[p].C = ""
					}
				}
				out = append(out, c)
			}
		}
	}
	return out
}

// c32BadPrepareCases: a good change A (modify or create) overlapping a change B of another
// namespace whose configuration passes Verify but is refused by every proxy at prepare. On
// each proxy B's refused prepare arrives before prepare(A), between prepare(A) and commit(A),
// or after commit(A); every assignment of these three positions to the n proxies (one per
// multiset unless ordered) is a case.
func c32BadPrepareCases(n int, ordered bool) []c32Case {
	var out []c32Case
	idx := make([]int, n)
	for {
		keep := true
		if !ordered {
			for i := 1; i < n; i++ {
				if idx[i] < idx[i-1] {
					keep = false
				}
			}
		}
		if keep {
			slots := make([][]string, 3)
			for p, sl := range idx {
				slots[sl] = append(slots[sl], fmt.Sprint(p))
			}
			var sch []string
			for sl, ev := range []string{"pA", "cA", ""} {
				if len(slots[sl]) > 0 {
					sch = append(sch, "pB@"+strings.Join(slots[sl], ","))
				}
				if ev != "" {
					sch = append(sch, ev)
				}
			}
			for _, ka := range []string{"modify", "create"} {
				for _, kb := range []string{"modifybad", "createbad"} {
					c := c32Case{Kind: "concurrent", Kinds: []string{ka, kb}, Schedule: sch}
					for p := 0; p < n; p++ {
						c.Proxies = append(c.Proxies, c32PF{P: c32OK, C: c32OK})
					}
					out = append(out, c)
				}
			}
		}
		i := 0
		for i < n {
			idx[i]++
			if idx[i] < 3 {
				break
			}
			idx[i] = 0
			i++
		}
		if i == n {
			break
		}
	}
	return out
}

// c32ReachesCommit: no persistent fault on any prepare phase, so the commit phase runs.
func c32ReachesCommit(c c32Case) bool {
	for _, p := range c.Proxies {
		if p.P == c32PingFail || p.P == c32Refuse || p.P == c32Drop {
			return false
		}
	}
	return true
}

func c32Space() (all []c32Case, exhaustive bool) {
	thorough := kit.Tier() == "thorough"
	rnd := kit.SubRand(kit.Seed(), "C32/cases")
	var base, ordered []c32Case // base: one per multiset; ordered: every placement with >=2 proxies
	for _, kind := range []string{"create", "modify", "delete"} {
		base = append(base, c32Vectors(kind, 1, c32PrepareKinds, false)...)
		base = append(base, c32Vectors(kind, 2, c32PrepareKinds, false)...)
		base = append(base, c32Vectors(kind, 3, c32Persistent, false)...)
		ordered = append(ordered, c32Vectors(kind, 2, c32PrepareKinds, true)...)
		ordered = append(ordered, c32Vectors(kind, 3, c32Persistent, true)...)
	}
	var conc []c32Case
	for n := 1; n <= 3; n++ {
		conc = append(conc, c32ConcurrentCases(n)...)
		conc = append(conc, c32BadPrepareCases(n, n == 2)...)
	}
	pick := func(from []c32Case, k int) []c32Case {
		var out []c32Case
		perm := rnd.Perm(len(from))
		for i := 0; i < k && i < len(perm); i++ {
			out = append(out, from[perm[i]])
		}
		return out
	}
	split := func(from []c32Case) (commit, other []c32Case) {
		for _, c := range from {
			if len(c.Proxies) < 2 {
				continue
			}
			if c32ReachesCommit(c) {
				commit = append(commit, c)
			} else {
				other = append(other, c)
			}
		}
		return
	}
	if thorough {
		// every multiset of fault vectors (complete up to renaming proxies), every concurrent
		// schedule, plus a seeded sample of ordered placements as a check of interchangeability
		all = append(append(all, base...), conc...)
		cm, ot := split(ordered)
		all = append(all, pick(cm, 150)...)
		all = append(all, pick(ot, 150)...)
		return all, true
	}
	// quick: every 1-proxy placement, the concurrent schedules on 1 and 2 proxies, and a seeded
	// sample of multi-proxy placements, half of which reach the commit phase
	for _, c := range base {
		if len(c.Proxies) == 1 {
			all = append(all, c)
		}
	}
	for _, c := range conc {
		if len(c.Proxies) <= 2 {
			all = append(all, c)
		}
	}
	cm, ot := split(ordered)
	all = append(all, pick(cm, 70)...)
	all = append(all, pick(ot, 50)...)
	return all, false
}

// ---- the test ----

func TestVerif_C32(t *testing.T) {
	if os.Getenv("C32_CHILD") != "" {
		c32ChildMain()
		return
	}
	rec := kit.Start("C32", "fault_enumeration",
		"cases = change kind {create, modify, delete} x 1..3 registered real proxies x per proxy a fault on the prepare phase "+
			"(ok, ping fails, error reply before acting, act-then-drop; for <=2 proxies also first-attempt-only variants) and on the commit phase "+
			"(ok, ping fails, error reply, act-then-drop); plus two overlapping changes of different namespaces for every pair of kinds (modify/create/delete) under every interleaving of their prepare/commit/delete requests (gated in the shims, 19 schedules), with a final proxy-equals-store re-check; plus a good change overlapping a change of another namespace that every proxy refuses at prepare (config valid for Verify, rejected by NewNamespace), the refused prepare placed per proxy before/between/after the good change's prepare and commit; "+
			"thorough enumerates all placements, quick all 1-proxy placements and a seeded sample of the others; non-trivial = a fault was injected or two changes overlapped; "+
			"key = the case")
	defer rec.Finish(t)
	rec.Assume("timeouts are emulated by act-then-drop with an immediate transport error; the real 30 s HTTP timeout is never a deciding step")
	rec.Assume("etcd is a protocol-level fake of the v2 keys API (PUT/GET recursive/DELETE, error 100); the store itself never fails")
	rec.Assume("a proxy's running configuration is observed through Manager.GetNamespace(name).GetMaxExecuteTime() and Manager.CheckUser; prepared-but-uncommitted state is not part of it")
	rec.Assume("faults are persistent for the phase unless marked first-attempt-only; proxies are interchangeable, so signatures sort the per-proxy fault vectors")
	log.SetGlobalLogger(c32NullLog{})

	rig, err := c32NewRig(rec, 3)
	if err != nil {
		rec.Inconclusive("rig could not be built: " + err.Error())
		return
	}
	defer rig.close()

	// memo: canonical case (proxies are interchangeable, so fault vectors sorted) -> result
	// of a real run. Only the shrinker consults it; the main loop runs every case for real.
	memo := map[string]c32Result{}
	runOne := func(c c32Case) (c32Result, bool) {
		res, inc := rig.run(c)
		if inc != "" {
			rec.Count("retries", 1)
			rec.Set("last_retry_reason", inc)
			n, err := rig.heal()
			rec.Count("proxy.restarts", int64(n))
			if err != nil {
				rec.Inconclusive("a proxy process died and could not be replaced: " + err.Error())
				return res, false
			}
			res, inc = rig.run(c) // once more before giving up
		}
		if inc != "" {
			rec.Inconclusive(inc + " (case " + c.key() + ")")
			return res, false
		}
		memo[c32Canon(c)] = res
		return res, true
	}

	report := func(c c32Case, res c32Result) {
		// greedy 1-minimisation inside the case space; each candidate is decided by a real run
		// (or by the recorded real run of the same canonical case)
		cur, curRes := c, res
		for changed := true; changed; {
			changed = false
			for _, w := range c32Weaker(cur) {
				wr, ok := memo[c32Canon(w)]
				if !ok {
					wr, ok = runOne(w)
					rec.Count("shrink.runs", 1)
				} else {
					rec.Count("shrink.memo_hits", 1)
				}
				if ok && len(wr.Broken) > 0 {
					cur, curRes, changed = wr.Case, wr, true
					break
				}
			}
		}
		sig := c32Sig(cur, curRes.Broken)
		rec.Violation(sig, fmt.Sprintf("%s with %d proxies, faults %v%s: control plane returned %q, store version %v, proxies run %+v (previous %d, new %d, -1 = absent); broken: %s",
			cur.Kind, len(cur.Proxies), cur.Proxies, c32SchedStr(cur), curRes.Errs, curRes.Store, curRes.Proxies, c32V0, c32V1, strings.Join(curRes.Broken, ", ")), curRes)
	}

	if p := kit.ReplayPath(); p != "" {
		var res c32Result
		if err := kit.LoadReplay(p, &res); err != nil {
			rec.Inconclusive("cannot load replay: " + err.Error())
			return
		}
		if res.Case.Kind == "" {
			// a witness of part b (proxy/server); this part runs a plain baseline case
			res.Case = c32Case{Kind: "modify", Proxies: []c32PF{{P: c32OK, C: c32Refuse}}}
		}
		out, ok := runOne(res.Case)
		rec.Eval(1)
		rec.Nontrivial(res.Case.key())
		rec.Sample(out)
		if ok && len(out.Broken) > 0 {
			report(res.Case, out)
		}
		return
	}

	cases, exhaustive := c32Space()
	// lighter cases first, so that the shrinker finds its candidates already decided
	sort.SliceStable(cases, func(i, j int) bool { return c32Weight(cases[i]) < c32Weight(cases[j]) })
	rec.Exhaustive(exhaustive)
	rec.Set("cases_planned", len(cases))
	incon := 0
	for _, c := range cases {
		res, ok := runOne(c)
		if !ok {
			incon++
			if incon >= 3 {
				return
			}
			continue
		}
		rec.Eval(1)
		rec.Count("cases.run", 1)
		rec.Count(fmt.Sprintf("kind.%s.n%d", c.Kind, len(c.Proxies)), 1)
		for k, v := range res.Events {
			rec.Count("shim."+k, int64(v))
		}
		for _, e := range res.Errs {
			if e == "" {
				rec.Count("calls.success", 1)
			} else {
				rec.Count("calls.failure", 1)
			}
		}
		if c.faulty() || c.Kind == "concurrent" {
			rec.Nontrivial(c32Canon(c))
		}
		rec.Sample(res)
		if len(res.Broken) > 0 {
			rec.Count("cases.broken", 1)
			report(c, res)
		}
	}
	for k, v := range rig.etcd.Ops() {
		rec.Count("etcd."+k, v)
	}
	if rec.CounterValue("calls.success") == 0 || rec.CounterValue("calls.failure") == 0 {
		rec.Inconclusive("the run saw no successful or no failing control-plane call: one side of the oracle was never exercised")
	}
}

// c32Canon is the case with its per-proxy fault vectors sorted.
func c32Canon(c c32Case) string {
	d := c32Case{Kind: c.Kind, Schedule: c.Schedule, Kinds: c.Kinds, Proxies: append([]c32PF{}, c.Proxies...)}
	sort.Slice(d.Proxies, func(i, j int) bool { return d.Proxies[i].String() < d.Proxies[j].String() })
	return d.key()
}

func c32Weight(c c32Case) int {
	w := len(c.Proxies) * 100
	for _, p := range c.Proxies {
		if p.P != c32OK {
			w++
		}
		if p.C != c32OK && p.C != "" {
			w++
		}
	}
	return w
}

func c32SchedStr(c c32Case) string {
	if len(c.Schedule) == 0 {
		return ""
	}
	return " schedule " + strings.Join(c.Schedule, ">")
}
