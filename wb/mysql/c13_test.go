package mysql

// C13 — binary result rows carry the same values as the text rows.
//
// Monitor: generated column metadata x text-protocol rows go through the real
// RowData.ParseText and the real Result.BuildBinaryResultSet (exactly what
// Session.writeResponse does for COM_STMT_EXECUTE). The produced binary row is decoded by
// the independent decoder mycli.DecodeBinaryRow (written from the protocol description,
// stdlib only), which must consume the row exactly; per column the decoded value must equal
// the text value under the binary-protocol definition of the column type (integers
// numerically by width/sign, FLOAT/DOUBLE by the bit pattern of the nearest value, temporal
// types field-wise, everything sent as length-encoded string byte-for-byte, NULL via the
// bitmap) — or ParseText / the builder returned an error.

import (
	"encoding/hex"
	"fmt"
	"math"
	"math/big"
	"strconv"
	"strings"
	"testing"

	kit "github.com/XiaoMi/Gaea/verifkit"
	"github.com/XiaoMi/Gaea/verifkit/mycli"
)

// ---------------------------------------------------------------- the type space

type c13Type struct {
	Code int
	Name string
	Fam  string
}

var c13Types = []c13Type{
	{0x00, "DECIMAL", "decimal"}, {0x01, "TINY", "int8"}, {0x02, "SHORT", "int16"}, {0x03, "LONG", "int32"},
	{0x04, "FLOAT", "float"}, {0x05, "DOUBLE", "double"}, {0x06, "NULL", "null"}, {0x07, "TIMESTAMP", "datetime"},
	{0x08, "LONGLONG", "int64"}, {0x09, "INT24", "int24"}, {0x0a, "DATE", "date"}, {0x0b, "TIME", "time"},
	{0x0c, "DATETIME", "datetime"}, {0x0d, "YEAR", "year"}, {0x0e, "NEWDATE", "date"}, {0x0f, "VARCHAR", "str"},
	{0x10, "BIT", "bit"}, {0x11, "TIMESTAMP2", "internal"}, {0x12, "DATETIME2", "internal"}, {0x13, "TIME2", "internal"},
	{0x14, "UNASSIGNED_0x14", "internal"}, {0xf4, "UNASSIGNED_0xf4", "internal"},
	{0xf5, "JSON", "json"}, {0xf6, "NEWDECIMAL", "decimal"}, {0xf7, "ENUM", "enum"}, {0xf8, "SET", "set"},
	{0xf9, "TINY_BLOB", "str"}, {0xfa, "MEDIUM_BLOB", "str"}, {0xfb, "LONG_BLOB", "str"}, {0xfc, "BLOB", "str"},
	{0xfd, "VAR_STRING", "str"}, {0xfe, "STRING", "str"}, {0xff, "GEOMETRY", "geom"},
}

const (
	c13NotNull  = 0x01
	c13Unsigned = 0x20
	c13Zerofill = 0x40
	c13Binary   = 0x80
)

func c13TypeOf(code int) c13Type {
	for _, t := range c13Types {
		if t.Code == code {
			return t
		}
	}
	return c13Type{code, fmt.Sprintf("TYPE_0x%02x", code), "internal"}
}

func c13IntBits(fam string) uint {
	switch fam {
	case "int8":
		return 8
	case "int16":
		return 16
	case "int24":
		return 24
	case "int32":
		return 32
	}
	return 64
}

// c13Classes lists the value classes of a type, simplest first.
func c13Classes(fam string, unsigned bool) []string {
	switch fam {
	case "int8", "int16", "int24", "int32", "int64":
		if unsigned {
			return []string{"one", "zero", "max", "random", "zerofill-padded"}
		}
		return []string{"one", "zero", "minus-one", "min", "max", "random"}
	case "year":
		return []string{"normal", "zero", "min", "max", "random"}
	case "float":
		return []string{"one", "zero", "neg-zero", "frac", "neg", "six-digits", "int-like", "large-exp", "small-exp", "denormal", "random-bits"}
	case "double":
		return []string{"one", "zero", "neg-zero", "frac", "neg", "seventeen-digits", "int-like", "max", "min-normal", "denormal", "random-bits"}
	case "decimal":
		return []string{"normal", "zero", "int", "neg", "leading-zero-frac", "trailing-zeros", "zero-scaled", "int-scaled", "digits65", "scale30", "random"}
	case "str", "internal":
		return []string{"short", "empty", "binary", "utf8", "digits", "len250", "len251", "len65535", "len65536", "random"}
	case "bit":
		return []string{"b1", "b0", "eight-bytes", "random"}
	case "json":
		return []string{"object", "null-literal", "array", "string", "long"}
	case "enum":
		return []string{"short", "empty", "utf8", "len250", "len255"}
	case "set":
		return []string{"short", "empty", "single", "utf8", "len251", "len1000"}
	case "geom":
		return []string{"point", "random"}
	case "date":
		return []string{"normal", "zero", "min", "max", "year-0", "zero-month", "zero-day", "invalid-day", "random"}
	case "datetime":
		// fields-hmsf-XXXX: every combination of hour, minute, second, fraction being zero (0)
		// or non-zero (1), since encoders pick the wire length from which fields are zero
		return append([]string{"normal", "zero", "midnight", "frac6", "frac3", "frac-zero", "min", "max", "zero-frac", "zero-month", "random", "random-frac"}, c13FieldMasks("fields-hmsf-", 4)...)
	case "time":
		// fields-nhmsf-XXXXX: sign, hours (>0), minutes, seconds, fraction zero / non-zero
		return append([]string{"normal", "zero", "neg", "max", "min", "over24", "frac6", "frac3", "neg-frac", "frac-only", "neg-small", "zero-frac", "random", "random-frac"}, c13FieldMasks("fields-nhmsf-", 5)...)
	}
	return nil
}

func c13FieldMasks(prefix string, bits int) []string {
	out := []string{}
	for m := 0; m < 1<<uint(bits); m++ {
		s := ""
		for b := bits - 1; b >= 0; b-- {
			s += string(byte('0' + m>>uint(b)&1))
		}
		out = append(out, prefix+s)
	}
	return out
}

// c13Field: a zero or non-zero field value for a fields-... class ('1' = non-zero, 1..max).
func c13Field(bit byte, max int, r *kit.Rand) int {
	if bit == '0' {
		return 0
	}
	return r.Range(1, max)
}

// c13FracText: "" for a zero fraction, else ".dddddd" with a non-zero value (1, 500000 or random).
func c13FracText(bit byte, r *kit.Rand) string {
	if bit == '0' {
		return ""
	}
	return fmt.Sprintf(".%06d", []int{1, 500000, r.Range(1, 999999), r.Range(1, 999) * 1000}[r.Intn(4)])
}

func c13Letters(r *kit.Rand, n int) []byte {
	b := make([]byte, n)
	for i := range b {
		b[i] = byte('a' + r.Intn(26))
	}
	return b
}

func c13Digits(r *kit.Rand, n int) string {
	b := make([]byte, n)
	for i := range b {
		b[i] = byte('0' + r.Intn(10))
	}
	if n > 0 && b[0] == '0' {
		b[0] = '7'
	}
	return string(b)
}

// c13Value generates the text-protocol value of a class.
func c13Value(t c13Type, unsigned bool, class string, r *kit.Rand) []byte {
	switch t.Fam {
	case "int8", "int16", "int24", "int32", "int64":
		bits := c13IntBits(t.Fam)
		lo, hi := new(big.Int), new(big.Int)
		if unsigned {
			hi.Sub(new(big.Int).Lsh(big.NewInt(1), bits), big.NewInt(1))
		} else {
			lo.Neg(new(big.Int).Lsh(big.NewInt(1), bits-1))
			hi.Sub(new(big.Int).Lsh(big.NewInt(1), bits-1), big.NewInt(1))
		}
		rnd := func() *big.Int {
			span := new(big.Int).Add(new(big.Int).Sub(hi, lo), big.NewInt(1))
			v := new(big.Int).SetUint64(r.Uint64())
			return v.Add(v.Mod(v, span), lo)
		}
		switch class {
		case "one":
			return []byte("1")
		case "zero":
			return []byte("0")
		case "minus-one":
			return []byte("-1")
		case "min":
			return []byte(lo.String())
		case "max":
			return []byte(hi.String())
		case "zerofill-padded":
			s := rnd().String()
			w := map[uint]int{8: 3, 16: 5, 24: 8, 32: 10, 64: 20}[bits]
			for len(s) < w {
				s = "0" + s
			}
			return []byte(s)
		}
		return []byte(rnd().String())
	case "year":
		switch class {
		case "normal":
			return []byte("2024")
		case "zero":
			return []byte("0000")
		case "min":
			return []byte("1901")
		case "max":
			return []byte("2155")
		}
		return []byte(strconv.Itoa(r.Range(1901, 2155)))
	case "float":
		switch class {
		case "one":
			return []byte("1")
		case "zero":
			return []byte("0")
		case "neg-zero":
			return []byte("-0")
		case "frac":
			return []byte("1.5")
		case "neg":
			return []byte("-123.456")
		case "six-digits":
			return []byte("0.333333")
		case "int-like":
			return []byte("16777216")
		case "large-exp":
			return []byte("3.40282e38")
		case "small-exp":
			return []byte("1.17549e-38")
		case "denormal":
			return []byte("1e-45")
		}
		for {
			f := math.Float32frombits(uint32(r.Uint64()))
			if f != f || math.IsInf(float64(f), 0) {
				continue
			}
			return []byte(strconv.FormatFloat(float64(f), []byte("gfe")[r.Intn(3)], -1, 32))
		}
	case "double":
		switch class {
		case "one":
			return []byte("1")
		case "zero":
			return []byte("0")
		case "neg-zero":
			return []byte("-0")
		case "frac":
			return []byte("1.5")
		case "neg":
			return []byte("-123.456")
		case "seventeen-digits":
			return []byte("0.30000000000000004")
		case "int-like":
			return []byte("9007199254740993")
		case "max":
			return []byte("1.7976931348623157e308")
		case "min-normal":
			return []byte("2.2250738585072014e-308")
		case "denormal":
			return []byte("5e-324")
		}
		for {
			f := math.Float64frombits(r.Uint64())
			if f != f || math.IsInf(f, 0) {
				continue
			}
			return []byte(strconv.FormatFloat(f, []byte("ge")[r.Intn(2)], -1, 64))
		}
	case "decimal":
		switch class {
		case "normal":
			return []byte("123.45")
		case "zero":
			return []byte("0")
		case "int":
			return []byte("123")
		case "neg":
			return []byte("-123.45")
		case "leading-zero-frac":
			return []byte("0.05")
		case "trailing-zeros":
			return []byte("1.50")
		case "zero-scaled":
			return []byte("0.00")
		case "int-scaled":
			return []byte("12.00")
		case "digits65":
			return []byte(strings.Repeat("9", 65))
		case "scale30":
			return []byte("0." + strings.Repeat("123456789", 3) + "123")
		}
		s := ""
		if r.Chance(1, 3) {
			s = "-"
		}
		s += c13Digits(r, r.Range(1, 30))
		if sc := r.Intn(12); sc > 0 {
			f := []byte(c13Digits(r, sc))
			f[len(f)-1] = byte('1' + r.Intn(9)) // no trailing zero: the scale classes are separate
			f[0] = byte('0' + r.Intn(10))
			if sc == 1 {
				f[0] = byte('1' + r.Intn(9))
			}
			s += "." + string(f)
		}
		return []byte(s)
	case "str", "internal":
		switch class {
		case "short":
			return []byte("abc")
		case "empty":
			return []byte{}
		case "binary":
			return []byte{0x00, 0xfb, 0xfc, 0xfd, 0xfe, 0xff, 0x0a, 0x27, 0x5c}
		case "utf8":
			return []byte("héllo 世界 ✓")
		case "digits":
			return []byte("0012345")
		case "len250":
			return c13Letters(r, 250)
		case "len251":
			return c13Letters(r, 251)
		case "len65535":
			return c13Letters(r, 65535)
		case "len65536":
			return c13Letters(r, 65536)
		}
		return r.Bytes(r.Intn(40))
	case "bit":
		switch class {
		case "b1":
			return []byte{1}
		case "b0":
			return []byte{0}
		case "eight-bytes":
			return []byte{0xff, 0xff, 0xff, 0xff, 0xff, 0xff, 0xff, 0xff}
		}
		return r.Bytes(r.Range(1, 8))
	case "json":
		switch class {
		case "object":
			return []byte(`{"a": 1}`)
		case "null-literal":
			return []byte("null")
		case "array":
			return []byte("[1, 2, 3]")
		case "string":
			return []byte(`"x"`)
		}
		return []byte(`["` + string(c13Letters(r, 70000)) + `"]`)
	case "enum":
		switch class {
		case "short":
			return []byte("abc")
		case "empty":
			return []byte{}
		case "utf8":
			return []byte("größe")
		case "len250":
			return c13Letters(r, 250)
		}
		return c13Letters(r, 255)
	case "set":
		switch class {
		case "short":
			return []byte("a,b,c")
		case "empty":
			return []byte{}
		case "single":
			return []byte("a")
		case "utf8":
			return []byte("ä,ö")
		case "len251":
			return c13Letters(r, 251)
		}
		return c13Letters(r, 1000)
	case "geom":
		if class == "point" {
			return []byte{0, 0, 0, 0, 1, 1, 0, 0, 0, 0, 0, 0, 0, 0, 0, 0xf0, 0x3f, 0, 0, 0, 0, 0, 0, 0, 0x40}
		}
		return r.Bytes(25)
	case "date":
		switch class {
		case "normal":
			return []byte("2024-02-29")
		case "zero":
			return []byte("0000-00-00")
		case "min":
			return []byte("1000-01-01")
		case "max":
			return []byte("9999-12-31")
		case "year-0":
			return []byte("0000-01-01")
		case "zero-month":
			return []byte("2024-00-00")
		case "zero-day":
			return []byte("2024-05-00")
		case "invalid-day":
			return []byte("2024-02-31")
		}
		return []byte(fmt.Sprintf("%04d-%02d-%02d", r.Range(1000, 9999), r.Range(1, 12), r.Range(1, 28)))
	case "datetime":
		switch class {
		case "normal":
			return []byte("2024-02-29 12:34:56")
		case "zero":
			return []byte("0000-00-00 00:00:00")
		case "midnight":
			return []byte("2024-01-01 00:00:00")
		case "frac6":
			return []byte("2024-02-29 23:59:59.999999")
		case "frac3":
			return []byte("2024-02-29 12:34:56.120")
		case "frac-zero":
			return []byte("2024-01-01 00:00:00.000000")
		case "min":
			return []byte("1000-01-01 00:00:00")
		case "max":
			return []byte("9999-12-31 23:59:59")
		case "zero-frac":
			return []byte("0000-00-00 00:00:00.000000")
		case "zero-month":
			return []byte("2024-00-00 00:00:00")
		}
		if strings.HasPrefix(class, "fields-hmsf-") {
			b := class[len("fields-hmsf-"):]
			return []byte(fmt.Sprintf("%04d-%02d-%02d %02d:%02d:%02d", r.Range(1000, 9999), r.Range(1, 12), r.Range(1, 28),
				c13Field(b[0], 23, r), c13Field(b[1], 59, r), c13Field(b[2], 59, r)) + c13FracText(b[3], r))
		}
		s := fmt.Sprintf("%04d-%02d-%02d %02d:%02d:%02d", r.Range(1000, 9999), r.Range(1, 12), r.Range(1, 28), r.Intn(24), r.Intn(60), r.Intn(60))
		if class == "random-frac" {
			s += fmt.Sprintf(".%06d", r.Intn(1000000))[:2+r.Intn(6)]
		}
		return []byte(s)
	case "time":
		switch class {
		case "normal":
			return []byte("12:34:56")
		case "zero":
			return []byte("00:00:00")
		case "neg":
			return []byte("-12:34:56")
		case "max":
			return []byte("838:59:59")
		case "min":
			return []byte("-838:59:59")
		case "over24":
			return []byte("100:00:00")
		case "frac6":
			return []byte("12:34:56.789012")
		case "frac3":
			return []byte("12:34:56.120")
		case "neg-frac":
			return []byte("-00:00:00.500000")
		case "frac-only":
			return []byte("00:00:00.000001")
		case "neg-small":
			return []byte("-00:00:01")
		case "zero-frac":
			return []byte("00:00:00.000000")
		}
		if strings.HasPrefix(class, "fields-nhmsf-") {
			b := class[len("fields-nhmsf-"):]
			h, mi, sec, fr := c13Field(b[1], 838, r), c13Field(b[2], 59, r), c13Field(b[3], 59, r), c13FracText(b[4], r)
			sign := ""
			if b[0] == '1' && (h != 0 || mi != 0 || sec != 0 || fr != "") {
				sign = "-"
			}
			if h == 838 && mi == 59 && sec == 59 {
				fr = "" // 838:59:59 is the limit of TIME
			}
			return []byte(fmt.Sprintf("%s%02d:%02d:%02d%s", sign, h, mi, sec, fr))
		}
		s := ""
		if r.Chance(1, 3) {
			s = "-"
		}
		s += fmt.Sprintf("%02d:%02d:%02d", r.Intn(839), r.Intn(60), r.Intn(60))
		if class == "random-frac" {
			s += fmt.Sprintf(".%06d", r.Intn(1000000))[:2+r.Intn(6)]
		}
		return []byte(s)
	}
	return nil
}

// ---------------------------------------------------------------- independent value semantics

func c13Frac(s string) (int, bool) {
	if len(s) == 0 || len(s) > 6 {
		return 0, false
	}
	for len(s) < 6 {
		s += "0"
	}
	v, err := strconv.Atoi(s)
	return v, err == nil && v >= 0
}

func c13Ints(parts []string) ([]int, bool) {
	out := make([]int, len(parts))
	for i, p := range parts {
		if p == "" {
			return nil, false
		}
		for _, c := range p {
			if c < '0' || c > '9' {
				return nil, false
			}
		}
		v, err := strconv.Atoi(p)
		if err != nil {
			return nil, false
		}
		out[i] = v
	}
	return out, true
}

// c13Temporal maps a textual temporal value to its fields: sign, y, m, d, h, mi, s, microseconds.
func c13Temporal(fam, s string) (f [8]int, ok bool) {
	us := 0
	if i := strings.IndexByte(s, '.'); i >= 0 {
		if fam == "date" {
			return f, false
		}
		if us, ok = c13Frac(s[i+1:]); !ok {
			return f, false
		}
		s = s[:i]
	}
	f[7] = us
	switch fam {
	case "date":
		v, ok := c13Ints(strings.Split(s, "-"))
		if !ok || len(v) != 3 {
			return f, false
		}
		f[1], f[2], f[3] = v[0], v[1], v[2]
	case "datetime":
		sp := strings.Split(s, " ")
		if len(sp) != 2 {
			return f, false
		}
		v, ok := c13Ints(strings.Split(sp[0], "-"))
		w, ok2 := c13Ints(strings.Split(sp[1], ":"))
		if !ok || !ok2 || len(v) != 3 || len(w) != 3 {
			return f, false
		}
		f[1], f[2], f[3], f[4], f[5], f[6] = v[0], v[1], v[2], w[0], w[1], w[2]
	case "time":
		if strings.HasPrefix(s, "-") {
			f[0] = 1
			s = s[1:]
		}
		w, ok := c13Ints(strings.Split(s, ":"))
		if !ok || len(w) != 3 {
			return f, false
		}
		f[4], f[5], f[6] = w[0], w[1], w[2]
		if f[4] == 0 && f[5] == 0 && f[6] == 0 && f[7] == 0 {
			f[0] = 0
		}
	}
	return f, true
}

// c13Compare decides whether the decoded binary value dec carries the text value.
// Returns "" or the oracle clause that failed.
func c13Compare(t c13Type, text []byte, dec string) string {
	switch t.Fam {
	case "int8", "int16", "int24", "int32", "int64", "year":
		a, ok1 := new(big.Int).SetString(string(text), 10)
		b, ok2 := new(big.Int).SetString(dec, 10)
		if !ok1 || !ok2 || a.Cmp(b) != 0 {
			return "value-differs"
		}
	case "float":
		a, err1 := strconv.ParseFloat(string(text), 32)
		b, err2 := strconv.ParseFloat(dec, 32)
		if err1 != nil || err2 != nil || math.Float32bits(float32(a)) != math.Float32bits(float32(b)) {
			return "value-differs"
		}
	case "double":
		a, err1 := strconv.ParseFloat(string(text), 64)
		b, err2 := strconv.ParseFloat(dec, 64)
		if err1 != nil || err2 != nil || math.Float64bits(a) != math.Float64bits(b) {
			return "value-differs"
		}
	case "date", "datetime", "time":
		a, ok1 := c13Temporal(t.Fam, string(text))
		b, ok2 := c13Temporal(t.Fam, dec)
		if !ok1 || !ok2 || a != b {
			return "value-differs"
		}
	case "decimal":
		if string(text) != dec {
			a, ok1 := new(big.Rat).SetString(string(text))
			b, ok2 := new(big.Rat).SetString(dec)
			if ok1 && ok2 && a.Cmp(b) == 0 {
				return "decimal-text-differs-same-number"
			}
			return "value-differs"
		}
	default:
		if string(text) != dec {
			return "value-differs"
		}
	}
	return ""
}

// ---------------------------------------------------------------- one case through the real code

type c13Cell struct {
	Null  bool   `json:"null,omitempty"`
	Text  string `json:"text_hex"`
	Class string `json:"class,omitempty"`
}

type c13Case struct {
	Types []int       `json:"types"`
	Flags []int       `json:"flags"`
	Rows  [][]c13Cell `json:"rows"`
}

type c13Res struct {
	Clause string // "" = oracle satisfied
	Col    int
	Detail string
	Err    string // "", "parse", "build": the proxy reported an error instead of a row
	Dec    []*string
}

// c13RunResult sends all rows of one result set through the real code in one piece - every
// row through ParseText, then ONE BuildBinaryResultSet call for the whole set, as
// Session.writeResponse does - and only then decodes and compares every binary row, so that
// state leaking from one row into another (NULL bitmap, reused buffers, bytes of an earlier
// row, an earlier row overwritten by a later one) is seen by the oracle.
func c13RunResult(types, flags []int, rows [][]c13Cell) (out []c13Res) {
	out = make([]c13Res, len(rows))
	for i := range out {
		out[i].Col = -1
	}
	defer func() {
		if r := recover(); r != nil {
			for i := range out {
				out[i] = c13Res{Clause: "panic", Col: -1, Detail: fmt.Sprint(r)}
			}
		}
	}()
	fields := make([]*Field, len(types))
	cols := make([]mycli.Col, len(types))
	for i := range types {
		fields[i] = &Field{Name: []byte(fmt.Sprintf("c%d", i)), Type: uint8(types[i]), Flag: uint16(flags[i])}
		cols[i] = mycli.Col{Name: fmt.Sprintf("c%d", i), Type: byte(types[i]), Flags: uint16(flags[i])}
	}
	texts := make([][][]byte, len(rows))
	var values [][]interface{}
	var idx []int // result row -> input row
	for ri, row := range rows {
		var wire []byte
		texts[ri] = make([][]byte, len(types))
		for i := range types {
			if row[i].Null {
				wire = append(wire, 0xfb)
				continue
			}
			texts[ri][i], _ = hex.DecodeString(row[i].Text)
			wire = append(wire, mycli.LenEncBytes(texts[ri][i])...)
		}
		vals, err := RowData(wire).ParseText(fields)
		if err != nil {
			out[ri].Err, out[ri].Detail = "parse", err.Error()
			continue
		}
		values = append(values, vals)
		idx = append(idx, ri)
	}
	if len(values) == 0 {
		return
	}
	result := &Result{Resultset: &Resultset{Fields: fields, Values: values}}
	if err := result.BuildBinaryResultSet(); err != nil {
		if len(idx) == 1 {
			out[idx[0]].Err, out[idx[0]].Detail = "build", err.Error()
			return
		}
		// the whole result set is refused; attribute the refusal row by row
		for _, ri := range idx {
			out[ri] = c13RunResult(types, flags, rows[ri:ri+1])[0]
			if out[ri].Err == "" && out[ri].Clause == "" {
				out[ri].Err, out[ri].Detail = "build", "refused as part of a result set: "+err.Error()
			}
		}
		return
	}
	if len(result.RowDatas) != len(idx) {
		for _, ri := range idx {
			out[ri].Clause, out[ri].Detail = "row-count", fmt.Sprintf("%d binary rows for %d text rows", len(result.RowDatas), len(idx))
		}
		return
	}
	for k, ri := range idx {
		row, res, bin := rows[ri], &out[ri], result.RowDatas[k]
		where := ""
		if len(rows) > 1 {
			where = fmt.Sprintf("row %d of %d, ", ri, len(rows))
		}
		dec, err := mycli.DecodeBinaryRow(cols, bin)
		if err != nil {
			res.Clause, res.Detail = "undecodable", fmt.Sprintf("%s%v; binary row % x", where, err, c13Head(bin, 48))
			continue
		}
		res.Dec = dec
		for i := range types {
			if row[i].Null && dec[i] != nil {
				res.Clause, res.Col, res.Detail = "null-became-value", i, fmt.Sprintf("%scolumn %d: NULL decoded as %q; binary row % x", where, i, c13Clip(*dec[i]), c13Head(bin, 48))
				break
			}
			if !row[i].Null && dec[i] == nil {
				res.Clause, res.Col, res.Detail = "value-became-null", i, fmt.Sprintf("%scolumn %d: %q decoded as NULL; binary row % x", where, i, c13Clip(string(texts[ri][i])), c13Head(bin, 48))
				break
			}
			if row[i].Null {
				continue
			}
			if cl := c13Compare(c13TypeOf(types[i]), texts[ri][i], *dec[i]); cl != "" {
				res.Clause, res.Col = cl, i
				res.Detail = fmt.Sprintf("%scolumn %d (%s): text %q decoded as %q; binary row % x", where, i, c13TypeOf(types[i]).Name, c13Clip(string(texts[ri][i])), c13Clip(*dec[i]), c13Head(bin, 48))
				break
			}
		}
	}
	return
}

// c13First returns the first refuted row of a result.
func c13First(rs []c13Res) (int, c13Res) {
	for i, r := range rs {
		if r.Clause != "" {
			return i, r
		}
	}
	return -1, c13Res{}
}

func c13Head(b []byte, n int) []byte {
	if len(b) > n {
		return b[:n]
	}
	return b
}

func c13Clip(s string) string {
	if len(s) > 60 {
		return s[:60] + fmt.Sprintf("...(%d bytes)", len(s))
	}
	return s
}

// ---------------------------------------------------------------- monitor

type c13Mon struct {
	rec    *kit.Rec
	broken map[string]bool // "TYPE" or "TYPE:class" found failing as a single column
	erring map[string]bool // "TYPE" or "TYPE:class" for which the real code returns an error as a single column
}

func c13FlagNames(fl int) string {
	s := ""
	for _, f := range []struct {
		b int
		n string
	}{{c13Unsigned, "+UNSIGNED"}, {c13NotNull, "+NOT_NULL"}, {c13Zerofill, "+ZEROFILL"}, {c13Binary, "+BINARY"}} {
		if fl&f.b != 0 {
			s += f.n
		}
	}
	return s
}

func c13Sig(c c13Case, clause string) string {
	rows := []string{}
	for _, row := range c.Rows {
		parts := []string{}
		for i, tc := range c.Types {
			p := c13TypeOf(tc).Name + c13FlagNames(c.Flags[i])
			if row[i].Null {
				p += ":NULL"
			} else {
				p += ":" + row[i].Class
			}
			parts = append(parts, p)
		}
		rows = append(rows, strings.Join(parts, ","))
	}
	return clause + "/" + strings.Join(rows, " ; ")
}

func c13Clone(c c13Case) c13Case {
	x := c13Case{Types: append([]int{}, c.Types...), Flags: append([]int{}, c.Flags...)}
	for _, row := range c.Rows {
		x.Rows = append(x.Rows, append([]c13Cell{}, row...))
	}
	return x
}

// shrink: greedily drop rows, then columns, while some row of the result still fails any
// oracle clause (a mis-framed column or a leak from another row can surface as a different
// clause elsewhere, so the clause is re-read from the reduced case); then, while that clause
// keeps failing, replace column types by TINY, drop flags and replace values by the simplest
// value of the type.
func (m *c13Mon) shrink(c c13Case, clause string) (c13Case, string) {
	c = c13Clone(c)
	failing := func(x c13Case) string {
		m.rec.Count("shrink.reruns", 1)
		_, r := c13First(c13RunResult(x.Types, x.Flags, x.Rows))
		return r.Clause
	}
	for changed := true; changed && len(c.Rows) > 1; {
		changed = false
		for j := len(c.Rows) - 1; j >= 0 && len(c.Rows) > 1; j-- {
			x := c13Clone(c)
			x.Rows = append(x.Rows[:j], x.Rows[j+1:]...)
			if cl := failing(x); cl != "" {
				c, clause, changed = x, cl, true
			}
		}
	}
	for changed := true; changed && len(c.Types) > 1; {
		changed = false
		for j := 0; j < len(c.Types) && len(c.Types) > 1; j++ {
			x := c13Case{Rows: make([][]c13Cell, len(c.Rows))}
			for k := range c.Types {
				if k != j {
					x.Types = append(x.Types, c.Types[k])
					x.Flags = append(x.Flags, c.Flags[k])
					for ri := range c.Rows {
						x.Rows[ri] = append(x.Rows[ri], c.Rows[ri][k])
					}
				}
			}
			if cl := failing(x); cl != "" {
				c, clause, changed = x, cl, true
				j--
			}
		}
	}
	simplest := func(code, fl int) c13Cell {
		t := c13TypeOf(code)
		cls := c13Classes(t.Fam, fl&c13Unsigned != 0)
		if len(cls) == 0 {
			return c13Cell{Null: true}
		}
		return c13Cell{Text: hex.EncodeToString(c13Value(t, fl&c13Unsigned != 0, cls[0], kit.NewRand(7))), Class: cls[0]}
	}
	for j := range c.Types {
		if len(c.Rows) > 1 && c.Types[j] != 0x01 {
			// a failure that needs several rows is rarely about the type: try TINY
			x := c13Clone(c)
			x.Types[j], x.Flags[j] = 0x01, 0
			for ri := range x.Rows {
				if !x.Rows[ri][j].Null {
					x.Rows[ri][j] = simplest(0x01, 0)
				}
			}
			if failing(x) == clause {
				c = x
			}
		}
		for _, b := range []int{c13Binary, c13Zerofill, c13NotNull, c13Unsigned} {
			if c.Flags[j]&b != 0 {
				c.Flags[j] &^= b
				if failing(c) != clause {
					c.Flags[j] |= b
				}
			}
		}
		for ri := range c.Rows {
			if c.Rows[ri][j].Null {
				continue
			}
			if sv := simplest(c.Types[j], c.Flags[j]); !sv.Null && sv.Class != c.Rows[ri][j].Class {
				old := c.Rows[ri][j]
				c.Rows[ri][j] = sv
				if failing(c) != clause {
					c.Rows[ri][j] = old
				}
			}
		}
	}
	return c, clause
}

// c13NullFlip: some column is NULL in one row and a value in a later row (or the reverse).
func c13NullFlip(rows [][]c13Cell) (nullThenValue, valueThenNull bool) {
	for ri := 1; ri < len(rows); ri++ {
		for i := range rows[ri] {
			if rows[ri-1][i].Null && !rows[ri][i].Null {
				nullThenValue = true
			}
			if !rows[ri-1][i].Null && rows[ri][i].Null {
				valueThenNull = true
			}
		}
	}
	return
}

func (m *c13Mon) run(c c13Case) {
	results := c13RunResult(c.Types, c.Flags, c.Rows)
	m.rec.Count(fmt.Sprintf("results.rows=%d", len(c.Rows)), 1)
	allOK := true
	for ri, row := range c.Rows {
		res := results[ri]
		m.rec.Eval(1)
		out := "ok"
		switch {
		case res.Clause != "":
			out = res.Clause
		case res.Err != "":
			out = "error-" + res.Err
		}
		if out != "ok" {
			allOK = false
		}
		m.rec.Count("rows."+out, 1)
		if len(c.Rows) > 1 {
			m.rec.Count("rows.checked_inside_multi_row_result", 1)
		}
		for i, tc := range c.Types {
			t := c13TypeOf(tc)
			cl := row[i].Class
			if row[i].Null {
				cl = "NULL"
			}
			co := out
			if res.Clause != "" && res.Col >= 0 && res.Col != i {
				co = "row-failed-elsewhere"
			}
			if len(c.Types) == 1 || out == "ok" {
				m.rec.Nontrivial(t.Name + c13FlagNames(c.Flags[i]&c13Unsigned) + "/" + cl + "/" + co)
			}
			if out == "ok" {
				m.rec.Count("columns.compared."+t.Name, 1)
			}
		}
		if out == "ok" {
			m.rec.Nontrivial(fmt.Sprintf("row/cols=%d/nulls=%d", len(c.Types), c13Nulls(row)))
			if len(c.Rows) == 1 && c13RowBytes(row) < 120 {
				m.rec.Sample(map[string]interface{}{"types": c.Types, "flags": c.Flags, "row": row, "decoded": c13Strs(res.Dec)})
			}
			continue
		}
		if res.Err != "" && len(c.Rows) == 1 && len(c.Types) == 1 && !row[0].Null {
			t := c13TypeOf(c.Types[0])
			m.rec.Count("single-column.error."+t.Name, 1)
			if cls := c13Classes(t.Fam, c.Flags[0]&c13Unsigned != 0); cls[0] == row[0].Class {
				m.erring[t.Name] = true
			} else if !m.erring[t.Name] {
				m.erring[t.Name+":"+row[0].Class] = true
			}
		}
	}
	if len(c.Rows) > 1 && allOK {
		a, b := c13NullFlip(c.Rows)
		m.rec.Nontrivial(fmt.Sprintf("result/rows=%d/cols=%d/null-then-value=%v/value-then-null=%v", len(c.Rows), len(c.Types), a, b))
		if a {
			m.rec.Count("results.ok_with_null_then_value_in_a_column", 1)
		}
		if len(c.Rows) <= 3 && len(c.Types) <= 4 && c13RowBytes(c.Rows[0]) < 60 {
			dec := []interface{}{}
			for _, r := range results {
				dec = append(dec, c13Strs(r.Dec))
			}
			m.rec.Sample(map[string]interface{}{"types": c.Types, "flags": c.Flags, "rows": c.Rows, "decoded": dec})
		}
	}
	if _, res := c13First(results); res.Clause != "" {
		sc, scl := m.shrink(c, res.Clause)
		_, sres := c13First(c13RunResult(sc.Types, sc.Flags, sc.Rows))
		if len(sc.Rows) == 1 && len(sc.Types) == 1 && !sc.Rows[0][0].Null {
			t := c13TypeOf(sc.Types[0])
			if cls := c13Classes(t.Fam, sc.Flags[0]&c13Unsigned != 0); len(cls) > 0 && cls[0] == sc.Rows[0][0].Class {
				m.broken[t.Name] = true
			} else {
				m.broken[t.Name+":"+sc.Rows[0][0].Class] = true
			}
		}
		m.rec.Violation(c13Sig(sc, scl), fmt.Sprintf("%s: %s", scl, sres.Detail), sc)
	}
}

func c13Nulls(row []c13Cell) int {
	n := 0
	for _, c := range row {
		if c.Null {
			n++
		}
	}
	return n
}

func c13RowBytes(row []c13Cell) int {
	n := 0
	for _, c := range row {
		n += len(c.Text) / 2
	}
	return n
}

func c13Strs(d []*string) []interface{} {
	out := make([]interface{}, len(d))
	for i, s := range d {
		if s != nil {
			out[i] = *s
		}
	}
	return out
}

func c13Cells(t c13Type, unsigned bool, class string, r *kit.Rand) c13Cell {
	return c13Cell{Text: hex.EncodeToString(c13Value(t, unsigned, class, r)), Class: class}
}

func TestVerif_C13(t *testing.T) {
	rec := kit.Start("C13", "exploration", "(1) every column type code x flag combination (NOT_NULL, UNSIGNED, BINARY, ZEROFILL) x every value class of the type (extremes, zero, negative, fractional, zero/partial/invalid dates, >24h and negative times, 250/251/65535/65536-byte strings) as a single-column row; (2) NULL in every position and NULL masks for 1..20 columns, as single-row results and as 3..6-row results whose NULL masks change from row to row (every column position NULL in one row and a value in the next, and the reverse); (3) random results of 1..6 rows x 1..20 random columns with fresh values and an independent NULL mask per row; all rows of a result go through ONE BuildBinaryResultSet call and are decoded afterwards; non-trivial = distinct (type, signedness, value class, outcome) of columns whose row was decoded, distinct (column count, NULL count) of rows, distinct (row count, column count, NULL-to-value / value-to-NULL transition) of multi-row results")
	rec.Assume("text values are those a MySQL server can send for the column type (ranges by width/sign, DECIMAL without exponent, FLOAT/DOUBLE as shortest round-trip or 6/17 significant digits)")
	rec.Assume("DECIMAL is compared byte-for-byte (a changed scale is reported under its own clause decimal-text-differs-same-number)")
	rec.Assume("an error returned by ParseText or BuildBinaryResultSet satisfies the property (the proxy reports an error instead of a different value); such outcomes are counted, not judged")
	defer rec.Finish(t)
	m := &c13Mon{rec: rec, broken: map[string]bool{}, erring: map[string]bool{}}

	if p := kit.ReplayPath(); p != "" {
		var c c13Case
		if err := kit.LoadReplay(p, &c); err != nil {
			t.Fatal(err)
		}
		m.run(c)
		return
	}
	seed := kit.Seed()

	// (1) single-column enumeration
	r := kit.SubRand(seed, "C13/single")
	flagSets := []int{0, c13NotNull, c13Unsigned, c13Binary, c13NotNull | c13Unsigned, c13NotNull | c13Binary, c13Unsigned | c13Binary, c13NotNull | c13Unsigned | c13Binary, c13Unsigned | c13Zerofill}
	for _, ty := range c13Types {
		for _, fl := range flagSets {
			m.run(c13Case{Types: []int{ty.Code}, Flags: []int{fl}, Rows: [][]c13Cell{{{Null: true}}}})
			uns := fl&c13Unsigned != 0
			for _, cl := range c13Classes(ty.Fam, uns) {
				reps := 1
				if strings.HasPrefix(cl, "random") || cl == "zerofill-padded" {
					reps = kit.N(4, 60)
				}
				if strings.HasPrefix(cl, "fields-") {
					reps = kit.N(3, 20)
				}
				for i := 0; i < reps; i++ {
					m.run(c13Case{Types: []int{ty.Code}, Flags: []int{fl}, Rows: [][]c13Cell{{c13Cells(ty, uns, cl, r)}}})
				}
			}
		}
	}
	rec.Set("types_failing_as_single_column", c13Keys(m.broken))
	rec.Set("types_refused_with_error_as_single_column", c13Keys(m.erring))

	// column generator for multi-column rows
	r = kit.SubRand(seed, "C13/rows")
	pickCol := func(clean bool) (c13Type, int, c13Cell) {
		for {
			ty := c13Types[r.Intn(len(c13Types))]
			fl := flagSets[r.Intn(len(flagSets))]
			uns := fl&c13Unsigned != 0
			cls := c13Classes(ty.Fam, uns)
			if len(cls) == 0 {
				return ty, fl, c13Cell{Null: true}
			}
			cl := cls[r.Intn(len(cls))]
			if strings.HasPrefix(cl, "len65") || cl == "long" {
				if !r.Chance(1, 40) {
					continue
				}
			}
			if clean && (m.broken[ty.Name] || m.broken[ty.Name+":"+cl] || m.erring[ty.Name] || m.erring[ty.Name+":"+cl]) {
				continue
			}
			return ty, fl, c13Cells(ty, uns, cl, r)
		}
	}
	allowed := func(ty c13Type, cl string, clean bool) bool {
		return !clean || !(m.broken[ty.Name] || m.broken[ty.Name+":"+cl] || m.erring[ty.Name] || m.erring[ty.Name+":"+cl])
	}
	// a fresh value (any allowed class, so lengths differ from row to row) for an existing column
	freshCell := func(code, fl int, clean bool) c13Cell {
		ty := c13TypeOf(code)
		uns := fl&c13Unsigned != 0
		cls := c13Classes(ty.Fam, uns)
		if len(cls) == 0 {
			return c13Cell{Null: true}
		}
		for try := 0; try < 20; try++ {
			cl := cls[r.Intn(len(cls))]
			if (strings.HasPrefix(cl, "len65") || cl == "long") && !r.Chance(1, 40) {
				continue
			}
			if allowed(ty, cl, clean) {
				return c13Cells(ty, uns, cl, r)
			}
		}
		return c13Cells(ty, uns, cls[0], r)
	}
	// build: n random columns and len(nulls) rows; nulls[k](i) tells whether column i of row k is NULL
	build := func(n int, clean bool, nulls ...func(i int) bool) c13Case {
		c := c13Case{Rows: make([][]c13Cell, len(nulls))}
		for i := 0; i < n; i++ {
			ty, fl, cell := pickCol(clean)
			c.Types, c.Flags = append(c.Types, ty.Code), append(c.Flags, fl)
			for k, null := range nulls {
				switch {
				case null(i):
					c.Rows[k] = append(c.Rows[k], c13Cell{Null: true})
				case k == 0:
					c.Rows[k] = append(c.Rows[k], cell)
				default:
					c.Rows[k] = append(c.Rows[k], freshCell(ty.Code, fl, clean))
				}
			}
		}
		return c
	}
	all := func(i int) bool { return true }
	none := func(i int) bool { return false }
	// (2) NULL positions and masks, single-row results
	for n := 1; n <= 20; n++ {
		for pos := 0; pos < n; pos++ {
			p := pos
			m.run(build(n, true, func(i int) bool { return i == p }))
			m.run(build(n, true, func(i int) bool { return i != p }))
		}
		m.run(build(n, true, all))
		m.run(build(n, true, none))
		for k := 0; k < kit.N(10, 200); k++ {
			mask := r.Uint64()
			m.run(build(n, true, func(i int) bool { return mask>>uint(i)&1 == 1 }))
		}
	}
	// (2b) multi-row results whose NULL masks change from row to row: each column position
	// NULL in one row and a value in the next (both orders), all-NULL / no-NULL / all-NULL,
	// complementary masks, and 3..6 rows of independent random masks
	for n := 1; n <= 20; n++ {
		for pos := 0; pos < n; pos++ {
			p := pos
			only := func(i int) bool { return i == p }
			m.run(build(n, true, only, none, only))
			m.run(build(n, true, none, only, none))
			m.run(build(n, true, only, func(i int) bool { return i == (p+1)%n }, func(i int) bool { return i == (p+2)%n }))
		}
		m.run(build(n, true, all, none, all))
		m.run(build(n, true, none, all, none))
		m.run(build(n, true, all, all, none, none))
		for k := 0; k < kit.N(6, 100); k++ {
			mask := r.Uint64()
			a := func(i int) bool { return mask>>uint(i)&1 == 1 }
			b := func(i int) bool { return mask>>uint(i)&1 == 0 }
			m.run(build(n, true, a, b, a))
			masks := make([]func(i int) bool, r.Range(3, 6))
			for q := range masks {
				mq := r.Uint64() & r.Uint64()
				masks[q] = func(i int) bool { return mq>>uint(i)&1 == 1 }
			}
			m.run(build(n, true, masks...))
		}
	}
	// (3) random results; half of them have 2..6 rows with fresh values and an independent
	// NULL mask per row; 1 in 8 may contain the types/classes found failing or refused on
	// their own (which would otherwise mask the other columns of most rows)
	for k := 0; k < kit.N(12000, 400000); k++ {
		n := r.Range(1, 20)
		if r.Chance(1, 2) {
			n = r.Range(1, 5)
		}
		clean := !r.Chance(1, 8)
		nrows := 1
		if r.Chance(1, 2) {
			nrows = r.Range(2, 6)
		}
		nulls := make([]func(i int) bool, nrows)
		for q := range nulls {
			den := []int{6, 6, 2, 3}[r.Intn(4)]
			nulls[q] = func(i int) bool { return r.Chance(1, den) }
		}
		m.run(build(n, clean, nulls...))
	}
}

func c13Keys(mm map[string]bool) []string {
	out := []string{}
	for k := range mm {
		out = append(out, k)
	}
	// insertion sort (no sort import needed for a handful of keys)
	for i := 1; i < len(out); i++ {
		for j := i; j > 0 && out[j] < out[j-1]; j-- {
			out[j], out[j-1] = out[j-1], out[j]
		}
	}
	return out
}
