package mysql

// C11 — MySQL packets arrive intact and correctly sequenced.
//
// Monitor: payloads of boundary lengths (0 .. 3*(2^24-1)) are written by the real
// Conn.WritePacket (direct, through the buffered writer, or through the ephemeral write
// buffer) into an in-memory one-directional stream. A tap on the write side feeds an
// independent frame parser (frame sizes, sequence ids mod 256, payload concatenation,
// trailing empty frame iff len%(2^24-1)==0 && len>0). The read side of the stream delivers
// the bytes in harness-chosen fragments (1-byte dribble across headers, cuts inside and at
// the edges of every header, random chunk sizes) to the real ReadPacket and
// ReadEphemeralPacket(+RecycleReadPacket), which must return the payload byte-for-byte and
// then accept the next packet (a short sentinel) with the continuing sequence id. In the
// perturbation cases the stream alters exactly one frame's sequence byte on its way to the
// reader (every frame position, including the empty terminator): the reader must return an
// error. A soak phase runs several connections concurrently over the shared buffer pool
// under the race detector and re-checks retained packets after the pool was reused.

import (
	"bytes"
	"crypto/aes"
	"crypto/cipher"
	"fmt"
	"io"
	"net"
	"runtime/debug"
	"sort"
	"strings"
	"sync"
	"testing"
	"time"

	kit "github.com/XiaoMi/Gaea/verifkit"
)

const (
	c11Max   = 1<<24 - 1 // frame limit, from the protocol description (not Gaea's constant)
	c11Slack = 8192
)

var c11Sentinel = []byte{0x0e, 0xc1, 0x1a, 0x55, 0xaa, 0x00, 0xff}

type c11Case struct {
	MasterSeed uint64 `json:"master_seed"`
	Len        int    `json:"len"`
	Off        int    `json:"off"`
	Seq        int    `json:"seq"`
	Frag       string `json:"frag"`
	FragSeed   uint64 `json:"frag_seed"`
	Reader     string `json:"reader"`
	Writer     string `json:"writer"`
	Perturb    int    `json:"perturb_frame"` // -1: none; else index of the frame whose sequence byte is altered
	Delta      int    `json:"delta"`
	Soak       bool   `json:"soak,omitempty"`
}

type c11Fail struct {
	Side   string
	Clause string
	Detail string
}

// ---------------------------------------------------------------- the stream

type c11Addr struct{}

func (c11Addr) Network() string { return "c11mem" }
func (c11Addr) String() string  { return "c11mem" }

// c11Cutter decides how many bytes one Read may deliver at a stream offset.
type c11Cutter struct {
	policy string
	hdrs   []int64 // offsets of the frame headers of the expected layout
	r      *kit.Rand
}

var c11Frags = []string{"whole", "dribble", "hdrsplit", "boundary", "random", "nearhdr"}

func (c *c11Cutter) nextPoint(pos int64, points func(i int, h int64) []int64) int {
	best := int64(1 << 30)
	for i, h := range c.hdrs {
		for _, p := range points(i, h) {
			if p > pos && p-pos < best {
				best = p - pos
			}
		}
	}
	return int(best)
}

func (c *c11Cutter) max(pos int64) int {
	switch c.policy {
	case "dribble":
		// one byte at a time from 5 bytes before to 9 bytes after every header start
		for _, h := range c.hdrs {
			if pos >= h-5 && pos < h+9 {
				return 1
			}
		}
		return c.nextPoint(pos, func(i int, h int64) []int64 { return []int64{h - 5} })
	case "hdrsplit":
		return c.nextPoint(pos, func(i int, h int64) []int64 { return []int64{h + 1 + int64(i%3), h + 5} })
	case "boundary":
		return c.nextPoint(pos, func(i int, h int64) []int64 { return []int64{h, h + 4} })
	case "random":
		sizes := []int{1, 2, 3, 4, 5, 7, 100, 4093, 16383, 16384, 16385, 65536, 1 << 20, 1 << 24}
		return sizes[c.r.Intn(len(sizes))]
	case "nearhdr":
		for _, h := range c.hdrs {
			if pos >= h-64 && pos < h+64 {
				return 1 + c.r.Intn(7)
			}
		}
		n := 65536 + c.r.Intn(4<<20)
		if m := c.nextPoint(pos, func(i int, h int64) []int64 { return []int64{h - 64} }); m < n {
			return m
		}
		return n
	}
	return 1 << 30
}

// c11Pipe is a one-directional in-memory net.Conn: Write blocks until the bytes were
// consumed by Read (no copy of the stream is kept); Read delivers at most cut.max bytes.
type c11Pipe struct {
	mu       sync.Mutex
	cond     *sync.Cond
	cur      []byte
	wclosed  bool
	rclosed  bool
	rpos     int64
	cut      *c11Cutter
	mutOff   int64
	mutDelta byte
	mutDone  bool
	eofSeen  bool
	reads    int64
	minRead  int
	tap      *c11Tap
}

func c11NewPipe(cut *c11Cutter, tap *c11Tap) *c11Pipe {
	p := &c11Pipe{cut: cut, tap: tap, mutOff: -1, minRead: 1 << 30}
	p.cond = sync.NewCond(&p.mu)
	return p
}

func (p *c11Pipe) Write(b []byte) (int, error) {
	if p.tap != nil {
		p.tap.feed(b)
	}
	p.mu.Lock()
	defer p.mu.Unlock()
	if p.rclosed || p.wclosed {
		return 0, io.ErrClosedPipe
	}
	p.cur = b
	p.cond.Broadcast()
	for len(p.cur) > 0 && !p.rclosed {
		p.cond.Wait()
	}
	if len(p.cur) > 0 {
		n := len(b) - len(p.cur)
		p.cur = nil
		return n, io.ErrClosedPipe
	}
	return len(b), nil
}

func (p *c11Pipe) Read(b []byte) (int, error) {
	p.mu.Lock()
	defer p.mu.Unlock()
	if len(b) == 0 {
		return 0, nil
	}
	for len(p.cur) == 0 && !p.wclosed && !p.rclosed {
		p.cond.Wait()
	}
	if p.rclosed {
		return 0, io.ErrClosedPipe
	}
	if len(p.cur) == 0 {
		p.eofSeen = true
		return 0, io.EOF
	}
	n := len(b)
	if len(p.cur) < n {
		n = len(p.cur)
	}
	if m := p.cut.max(p.rpos); m < n {
		n = m
	}
	if n < 1 {
		n = 1
	}
	copy(b[:n], p.cur[:n])
	if p.mutOff >= p.rpos && p.mutOff < p.rpos+int64(n) {
		b[p.mutOff-p.rpos] += p.mutDelta
		p.mutDone = true
	}
	p.rpos += int64(n)
	p.cur = p.cur[n:]
	p.reads++
	if n < p.minRead {
		p.minRead = n
	}
	if len(p.cur) == 0 {
		p.cond.Broadcast()
	}
	return n, nil
}

func (p *c11Pipe) CloseWrite() {
	p.mu.Lock()
	p.wclosed = true
	p.cond.Broadcast()
	p.mu.Unlock()
}

func (p *c11Pipe) CloseRead() {
	p.mu.Lock()
	p.rclosed = true
	p.cond.Broadcast()
	p.mu.Unlock()
}

func (p *c11Pipe) Close() error {
	p.CloseWrite()
	p.CloseRead()
	return nil
}

func (p *c11Pipe) sawEOF() bool {
	p.mu.Lock()
	defer p.mu.Unlock()
	return p.eofSeen
}

func (p *c11Pipe) LocalAddr() net.Addr                { return c11Addr{} }
func (p *c11Pipe) RemoteAddr() net.Addr               { return c11Addr{} }
func (p *c11Pipe) SetDeadline(t time.Time) error      { return nil }
func (p *c11Pipe) SetReadDeadline(t time.Time) error  { return nil }
func (p *c11Pipe) SetWriteDeadline(t time.Time) error { return nil }

// ---------------------------------------------------------------- independent frame parser

type c11Frame struct {
	Len int `json:"len"`
	Seq int `json:"seq"`
}

// c11Tap parses the written byte stream into frames and compares the concatenated frame
// payloads with the expected logical stream (exp[0] ++ exp[1] ++ ...).
type c11Tap struct {
	exp       [][]byte
	seg, sOff int
	hdr       [4]byte
	hn        int
	remain    int
	frames    []c11Frame
	off       int64
	firstDiff int64
	extra     int64
}

func c11NewTap(exp ...[]byte) *c11Tap { return &c11Tap{exp: exp, firstDiff: -1} }

func (t *c11Tap) payload(chunk []byte) {
	for len(chunk) > 0 {
		for t.seg < len(t.exp) && t.sOff == len(t.exp[t.seg]) {
			t.seg++
			t.sOff = 0
		}
		if t.seg >= len(t.exp) {
			t.extra += int64(len(chunk))
			t.off += int64(len(chunk))
			return
		}
		want := t.exp[t.seg][t.sOff:]
		n := len(chunk)
		if len(want) < n {
			n = len(want)
		}
		if t.firstDiff < 0 && !bytes.Equal(want[:n], chunk[:n]) {
			for i := 0; i < n; i++ {
				if want[i] != chunk[i] {
					t.firstDiff = t.off + int64(i)
					break
				}
			}
		}
		t.sOff += n
		t.off += int64(n)
		chunk = chunk[n:]
	}
}

func (t *c11Tap) feed(b []byte) {
	for len(b) > 0 {
		if t.remain == 0 {
			n := copy(t.hdr[t.hn:], b)
			t.hn += n
			b = b[n:]
			if t.hn < 4 {
				return
			}
			t.hn = 0
			l := int(t.hdr[0]) | int(t.hdr[1])<<8 | int(t.hdr[2])<<16
			t.frames = append(t.frames, c11Frame{Len: l, Seq: int(t.hdr[3])})
			t.remain = l
			continue
		}
		n := len(b)
		if t.remain < n {
			n = t.remain
		}
		t.payload(b[:n])
		t.remain -= n
		b = b[n:]
	}
}

// c11ExpFrames: the frame sizes the protocol prescribes for a payload of n bytes.
func c11ExpFrames(n int) []int {
	out := []int{}
	for n >= c11Max {
		out = append(out, c11Max)
		n -= c11Max
	}
	return append(out, n)
}

func c11FrameKind(fl []int, k int) string {
	switch {
	case k >= len(fl):
		return "next-packet"
	case fl[k] == 0 && len(fl) == 1:
		return "empty-packet"
	case fl[k] == 0:
		return "empty-terminator"
	case len(fl) == 1:
		return "only"
	case k == 0:
		return "first"
	case k == len(fl)-1:
		return "last"
	}
	return "middle"
}

func c11FramesClass(n int) string {
	if n == 0 {
		return "len=0"
	}
	fl := c11ExpFrames(n)
	if fl[len(fl)-1] == 0 {
		return fmt.Sprintf("frames=%d+terminator", len(fl)-1)
	}
	return fmt.Sprintf("frames=%d", len(fl))
}

// c11CheckWire is the write-side oracle.
func c11CheckWire(t *c11Tap, n int, seq int) (clause, detail string) {
	fl := c11ExpFrames(n)
	want := append(append([]int{}, fl...), len(c11Sentinel))
	obs := fmt.Sprint(t.frames)
	if len(obs) > 300 {
		obs = obs[:300]
	}
	if t.hn != 0 || t.remain != 0 {
		return "wire-ends-inside-a-frame", obs
	}
	same := len(want) == len(t.frames)
	if same {
		for i := range want {
			if want[i] != t.frames[i].Len {
				same = false
			}
		}
	}
	if !same {
		nz := func(a []int) []int {
			o := []int{}
			for _, x := range a {
				if x != 0 {
					o = append(o, x)
				}
			}
			return o
		}
		ol := []int{}
		for _, f := range t.frames {
			ol = append(ol, f.Len)
		}
		cl := "frame-split"
		if n > 0 && fmt.Sprint(nz(ol)) == fmt.Sprint(nz(want)) {
			if len(ol) < len(want) {
				cl = "terminator-missing"
			} else {
				cl = "terminator-spurious"
			}
		}
		return cl, fmt.Sprintf("frames on the wire %s, want sizes %v", obs, want)
	}
	for i, f := range t.frames {
		if f.Seq != (seq+i)&255 {
			return "sequence/" + c11FrameKind(fl, i), fmt.Sprintf("frame %d has sequence %d, want %d (frames %s)", i, f.Seq, (seq+i)&255, obs)
		}
	}
	if t.firstDiff >= 0 {
		return "content", fmt.Sprintf("first differing payload byte at stream offset %d", t.firstDiff)
	}
	if t.extra != 0 || t.off != int64(n+len(c11Sentinel)) {
		return "content-length", fmt.Sprintf("payload bytes on the wire %d, want %d", t.off, n+len(c11Sentinel))
	}
	return "", ""
}

// ---------------------------------------------------------------- drivers of the real code

var c11Readers = []string{"ReadPacket", "ReadEphemeralPacket"}
var c11Writers = []string{"direct", "buffered", "ephemeral"}

func c11Read(rc *Conn, kind string) (data []byte, err error, recycle func()) {
	if kind == "ReadEphemeralPacket" {
		data, err = rc.ReadEphemeralPacket()
		return data, err, rc.RecycleReadPacket
	}
	data, err = rc.ReadPacket()
	return data, err, func() {}
}

func c11WriteOne(wc *Conn, mode string, payload []byte) error {
	if mode == "ephemeral" {
		buf := wc.StartEphemeralPacket(len(payload))
		copy(buf, payload)
		return wc.WriteEphemeralPacket()
	}
	return wc.WritePacket(payload)
}

func c11Write(wc *Conn, mode string, payload []byte) (err error) {
	defer func() {
		if r := recover(); r != nil {
			err = fmt.Errorf("panic: %v", r)
		}
	}()
	if mode == "buffered" {
		wc.StartWriterBuffering()
	}
	err = c11WriteOne(wc, mode, payload)
	if err == nil {
		err = wc.WritePacket(c11Sentinel)
	}
	if mode == "buffered" {
		if e := wc.Flush(); err == nil {
			err = e
		}
	}
	return err
}

func c11FirstDiff(a, b []byte) int {
	n := len(a)
	if len(b) < n {
		n = len(b)
	}
	for i := 0; i < n; i++ {
		if a[i] != b[i] {
			return i
		}
	}
	return n
}

func c11ReadSide(rc *Conn, p *c11Pipe, c c11Case, payload []byte) (fails []c11Fail) {
	defer func() {
		if r := recover(); r != nil {
			fails = append(fails, c11Fail{"reader", "panic", fmt.Sprint(r)})
		}
		p.CloseRead()
	}()
	data, err, recycle := c11Read(rc, c.Reader)
	if c.Perturb >= 0 {
		if err == nil {
			fails = append(fails, c11Fail{"reader", "perturbed-seq-accepted", fmt.Sprintf("returned %d bytes and no error", len(data))})
		} else if p.sawEOF() {
			fails = append(fails, c11Fail{"reader", "perturbed-seq-not-rejected-before-end-of-stream", err.Error()})
		}
		return
	}
	if err != nil {
		return append(fails, c11Fail{"reader", "unexpected-error", err.Error()})
	}
	if !bytes.Equal(data, payload) {
		fails = append(fails, c11Fail{"reader", "payload-differs", fmt.Sprintf("got %d bytes, want %d, first difference at offset %d", len(data), len(payload), c11FirstDiff(data, payload))})
	}
	recycle()
	data, err, recycle = c11Read(rc, c.Reader)
	if err != nil {
		return append(fails, c11Fail{"reader", "next-packet-rejected", err.Error()})
	}
	if !bytes.Equal(data, c11Sentinel) {
		fails = append(fails, c11Fail{"reader", "next-packet-differs", fmt.Sprintf("got %d bytes % x", len(data), c11Head(data))})
	}
	recycle()
	if p.sawEOF() {
		fails = append(fails, c11Fail{"reader", "read-past-end-of-stream", ""})
	}
	return
}

func c11Head(b []byte) []byte {
	if len(b) > 16 {
		return b[:16]
	}
	return b
}

type c11Stats struct {
	Reads   int64
	MinRead int
	Bytes   int64
	Frames  int
	Mutated bool
}

// c11Run executes one case against the real code. hung = watchdog fired.
func c11Run(c c11Case, master []byte, wd time.Duration) (fails []c11Fail, st c11Stats, hung bool) {
	payload := master[c.Off : c.Off+c.Len]
	fl := c11ExpFrames(c.Len)
	hdrs := []int64{}
	pos := int64(0)
	for _, f := range fl {
		hdrs = append(hdrs, pos)
		pos += 4 + int64(f)
	}
	hdrs = append(hdrs, pos)
	tap := c11NewTap(payload, c11Sentinel)
	p := c11NewPipe(&c11Cutter{policy: c.Frag, hdrs: hdrs, r: kit.NewRand(c.FragSeed)}, tap)
	if c.Perturb >= 0 && c.Perturb < len(fl) {
		p.mutOff = hdrs[c.Perturb] + 3
		p.mutDelta = byte(c.Delta)
	}
	wc, rc := NewConn(p), NewConn(p)
	wc.SetSequence(uint8(c.Seq))
	rc.SetSequence(uint8(c.Seq))

	wdone := make(chan error, 1)
	rdone := make(chan []c11Fail, 1)
	go func() {
		err := c11Write(wc, c.Writer, payload)
		p.CloseWrite()
		wdone <- err
	}()
	go func() { rdone <- c11ReadSide(rc, p, c, payload) }()
	timer := time.NewTimer(wd)
	defer timer.Stop()
	var werr error
	select {
	case fails = <-rdone:
	case <-timer.C:
		p.Close()
		return nil, st, true
	}
	select {
	case werr = <-wdone:
	case <-timer.C:
		p.Close()
		return fails, st, true
	}
	p.mu.Lock()
	st = c11Stats{Reads: p.reads, MinRead: p.minRead, Bytes: p.rpos, Frames: len(tap.frames), Mutated: p.mutDone}
	p.mu.Unlock()
	if c.Perturb < 0 {
		if werr != nil {
			// a reader that gave up closes the stream under the writer: only a write error
			// with a satisfied reader is the writer's own
			if len(fails) == 0 {
				fails = append(fails, c11Fail{"writer", "error", werr.Error()})
			}
		} else if cl, d := c11CheckWire(tap, c.Len, c.Seq); cl != "" {
			fails = append(fails, c11Fail{"writer", cl, d})
		}
	}
	return fails, st, false
}

// c11Master is the pseudo-random byte pool all payloads are slices of: an AES-CTR key stream
// keyed by the seed (byte loops are far too slow under the race detector; the stream cipher
// runs in uninstrumented assembly).
func c11Master(seed uint64, n int) []byte {
	key := kit.SubRand(seed, "C11/master").Bytes(32)
	blk, err := aes.NewCipher(key[:16])
	if err != nil {
		panic(err)
	}
	b := make([]byte, n+16)
	cipher.NewCTR(blk, key[16:]).XORKeyStream(b, b)
	return b
}

// c11Need: which non-default features a failure class was found to depend on (by shrinking).
type c11Need struct{ frag, seq, writer bool }

// c11Sig: canonical signature of a failure of case c; a non-default feature is part of the
// signature only when shrinking showed the failure class needs it.
func c11Sig(c c11Case, f c11Fail, need c11Need) string {
	var s string
	fl := c11ExpFrames(c.Len)
	if f.Side == "writer" {
		s = "writer/" + f.Clause + "/" + c11FramesClass(c.Len)
	} else {
		s = "reader=" + c.Reader + "/" + f.Clause
		if c.Perturb >= 0 {
			s += "/" + c11FrameKind(fl, c.Perturb)
		} else {
			s += "/" + c11FramesClass(c.Len)
		}
	}
	if need.writer && c.Writer != "direct" {
		s += "/writer=" + c.Writer
	}
	if need.frag && c.Frag != "whole" {
		s += "/frag=" + c.Frag
	}
	if need.seq && c.Seq != 0 {
		s += fmt.Sprintf("/seq=%d", c.Seq)
	}
	return s
}

func c11Coarse(c c11Case, f c11Fail) string {
	k := f.Side + "|" + f.Clause + "|"
	if f.Side == "reader" {
		k += c.Reader + "|"
	}
	if c.Perturb >= 0 {
		return k + c11FrameKind(c11ExpFrames(c.Len), c.Perturb)
	}
	return k + c11FramesClass(c.Len)
}

type c11Mon struct {
	rec     *kit.Rec
	master  []byte
	wd      time.Duration
	need    map[string]c11Need
	aborted bool
	cases   int
}

func (m *c11Mon) fails(c c11Case, side, clause string) (c11Fail, bool) {
	fs, _, hung := c11Run(c, m.master, m.wd)
	if hung {
		return c11Fail{}, false
	}
	m.rec.Count("shrink.reruns", 1)
	for _, f := range fs {
		if f.Side == side && f.Clause == clause {
			return f, true
		}
	}
	return c11Fail{}, false
}

// shrink removes one non-default feature at a time while the same oracle clause still fails.
func (m *c11Mon) shrink(c c11Case, f c11Fail) (c11Case, c11Fail) {
	try := func(mod func(x *c11Case)) {
		x := c
		mod(&x)
		if x == c {
			return
		}
		if g, ok := m.fails(x, f.Side, f.Clause); ok {
			c, f = x, g
		}
	}
	try(func(x *c11Case) { x.Frag = "whole" })
	try(func(x *c11Case) { x.Seq = 0 })
	try(func(x *c11Case) { x.Writer = "direct" })
	if c.Perturb >= 0 {
		try(func(x *c11Case) { x.Delta = 1 })
	}
	return c, f
}

func (m *c11Mon) one(c c11Case) {
	if m.aborted {
		return
	}
	fails, st, hung := c11Run(c, m.master, m.wd)
	if hung {
		m.rec.Inconclusive(fmt.Sprintf("watchdog: case %+v did not finish within %v", c, m.wd))
		m.aborted = true
		return
	}
	m.rec.Eval(1)
	m.cases++
	if c.Len >= c11Max/2 {
		fmt.Printf("progress: case %d len=%d perturb=%d reader=%s done\n", m.cases, c.Len, c.Perturb, c.Reader)
	}
	m.rec.Count("stream.bytes_delivered", st.Bytes)
	m.rec.Count("stream.reads", st.Reads)
	m.rec.Count("wire.frames_parsed", int64(st.Frames))
	if st.MinRead == 1 {
		m.rec.Count("cases.with_1_byte_reads", 1)
	}
	out := "ok"
	if len(fails) > 0 {
		out = fails[0].Side + ":" + fails[0].Clause
	}
	pk := "none"
	if c.Perturb >= 0 {
		pk = c11FrameKind(c11ExpFrames(c.Len), c.Perturb)
		if st.Mutated {
			m.rec.Count("perturbations.delivered", 1)
		} else {
			m.rec.Count("perturbations.not_reached", 1)
		}
	}
	sc := "mid"
	if c.Seq == 0 || c.Seq >= 254 {
		sc = fmt.Sprint(c.Seq)
	}
	m.rec.Nontrivial(strings.Join([]string{c11FramesClass(c.Len), "seq" + sc, c.Frag, c.Reader, c.Writer, "perturb=" + pk, out}, "/"))
	if len(fails) == 0 {
		m.rec.Sample(map[string]interface{}{"case": c, "reads": st.Reads, "frames": st.Frames, "outcome": out})
		return
	}
	for _, f := range fails {
		key := c11Coarse(c, f)
		cc, ff := c, f
		need, ok := m.need[key]
		if !ok {
			cc, ff = m.shrink(c, f)
			need = c11Need{frag: cc.Frag != "whole", seq: cc.Seq != 0, writer: cc.Writer != "direct"}
			m.need[key] = need
		}
		m.rec.Violation(c11Sig(cc, ff, need), fmt.Sprintf("%s %s: %s (len=%d seq=%d frag=%s reader=%s writer=%s perturb_frame=%d delta=%d)",
			ff.Side, ff.Clause, ff.Detail, cc.Len, cc.Seq, cc.Frag, cc.Reader, cc.Writer, cc.Perturb, cc.Delta), cc)
	}
}

// ---------------------------------------------------------------- soak (shared buffer pool, race detector)

type c11SoakItem struct {
	Len, Off       int
	Reader, Writer string
}

func c11Soak(rec *kit.Rec, master []byte, wd time.Duration) {
	workers := 4
	per := kit.N(400, 6000)
	var wg sync.WaitGroup
	var mu sync.Mutex
	hung := false
	for w := 0; w < workers; w++ {
		r := kit.SubRand(kit.Seed(), fmt.Sprintf("C11/soak/%d", w))
		items := make([]c11SoakItem, per)
		for i := range items {
			var n int
			switch r.Intn(6) {
			case 0:
				n = r.Intn(4)
			case 1:
				n = r.Range(120, 136)
			case 2:
				n = r.Range(16380, 16390)
			case 3:
				n = r.Intn(70000)
			default:
				n = r.Intn(600)
			}
			items[i] = c11SoakItem{Len: n, Off: r.Intn(c11Slack), Reader: c11Readers[r.Intn(2)], Writer: c11Writers[r.Intn(3)]}
		}
		p := c11NewPipe(&c11Cutter{policy: "random", r: kit.SubRand(kit.Seed(), fmt.Sprintf("C11/soakcut/%d", w))}, nil)
		wc, rc := NewConn(p), NewConn(p)
		seq0 := uint8(r.Intn(256))
		wc.SetSequence(seq0)
		rc.SetSequence(seq0)
		wg.Add(2)
		done := make(chan struct{})
		go func() {
			defer wg.Done()
			defer p.CloseWrite()
			defer func() { recover() }()
			for _, it := range items {
				if it.Writer == "buffered" {
					wc.StartWriterBuffering()
				}
				err := c11WriteOne(wc, it.Writer, master[it.Off:it.Off+it.Len])
				if it.Writer == "buffered" {
					if e := wc.Flush(); err == nil {
						err = e
					}
				}
				if err != nil {
					return
				}
			}
		}()
		go func(w int) {
			defer wg.Done()
			defer close(done)
			defer p.CloseRead()
			var kept []byte
			var keptIt c11SoakItem
			bad := func(i int, it c11SoakItem, clause, detail string) {
				rec.Violation("soak/"+clause+"/reader="+it.Reader, fmt.Sprintf("soak worker %d packet %d (len %d, writer %s): %s %s", w, i, it.Len, it.Writer, clause, detail),
					c11Case{Soak: true, MasterSeed: kit.Seed(), Len: it.Len, Off: it.Off, Reader: it.Reader, Writer: it.Writer, Perturb: -1})
			}
			defer func() {
				if r := recover(); r != nil {
					bad(-1, c11SoakItem{}, "panic", fmt.Sprint(r))
				}
			}()
			for i, it := range items {
				data, err, recycle := c11Read(rc, it.Reader)
				rec.Eval(1)
				if err != nil {
					bad(i, it, "unexpected-error", err.Error())
					return
				}
				want := master[it.Off : it.Off+it.Len]
				if !bytes.Equal(data, want) {
					bad(i, it, "payload-differs", fmt.Sprintf("got %d bytes, first difference at %d", len(data), c11FirstDiff(data, want)))
				}
				if kept != nil && !bytes.Equal(kept, master[keptIt.Off:keptIt.Off+keptIt.Len]) {
					bad(i, keptIt, "retained-packet-modified", "a packet returned by ReadPacket changed after later reads reused the buffer pool")
					kept = nil
				}
				if it.Reader == "ReadPacket" && it.Len > 0 {
					kept, keptIt = data, it
				}
				recycle()
				rec.Count("soak.packets", 1)
			}
			rec.Nontrivial(fmt.Sprintf("soak/worker%d/completed", w))
		}(w)
		go func() {
			select {
			case <-done:
			case <-time.After(wd):
				mu.Lock()
				hung = true
				mu.Unlock()
				p.Close()
			}
		}()
	}
	wg.Wait()
	if hung {
		rec.Inconclusive(fmt.Sprintf("watchdog: soak phase did not finish within %v", wd))
	}
}

// ---------------------------------------------------------------- workload

func TestVerif_C11(t *testing.T) {
	rec := kit.Start("C11", "exploration", "boundary payload lengths (0,1,2, k*(2^24-1)+{-1,0,1}, 3*(2^24-1)) and random lengths x starting sequence {0,1,127,254,255} x 6 fragmentations of the byte stream x 2 readers x 3 writer paths, plus one case per (length, frame position, reader) with that frame's sequence byte altered in transit; small lengths take the full product, multi-frame lengths a rotating covering selection (quick) or the full product (thorough); non-trivial = distinct (frame layout, sequence class, fragmentation, reader, writer, perturbed frame kind, outcome)")
	rec.Assume("the transport is a reliable ordered byte stream that may fragment arbitrarily (what TCP gives); ReadEphemeralPacketDirect (handshake only, single frame by contract) is not exercised")
	rec.Assume("the expected frame layout comes from the protocol description: frames of 2^24-1 bytes while at least that many bytes remain, then one shorter (possibly empty) frame")
	defer rec.Finish(t)
	wd := 900 * time.Second
	// Memory policy: in the sandbox a first-touched page costs about a millisecond and the
	// race detector triples the pages, so the run time is the number of fresh pages. Collect
	// only when the heap reaches a fixed limit (sized below for the largest payload) and keep
	// what was freed instead of returning it to the OS: freed 16 MiB frame buffers are reused.
	defer debug.SetGCPercent(debug.SetGCPercent(-1))
	defer debug.SetMemoryLimit(debug.SetMemoryLimit(256 << 20))

	if p := kit.ReplayPath(); p != "" {
		var c c11Case
		if err := kit.LoadReplay(p, &c); err != nil {
			t.Fatal(err)
		}
		if c.Soak {
			c11Soak(rec, c11Master(kit.Seed(), 80000+c11Slack), wd)
			return
		}
		m := &c11Mon{rec: rec, master: c11Master(c.MasterSeed, c.Off+c.Len), wd: wd, need: map[string]c11Need{}}
		m.one(c)
		return
	}

	seed := kit.Seed()
	thorough := kit.Tier() == "thorough"
	r := kit.SubRand(seed, "C11/cases")
	seqs := []int{0, 1, 127, 254, 255}
	deltas := []int{1, 255, 128, 77}

	// Data volume is the budget: under the race detector every fresh 16 MiB buffer the real
	// code allocates costs seconds (shadow memory), so multi-frame lengths get a selection of
	// the feature product (every reader, every frame kind; length, fragmentation, sequence
	// and writer rotate with the seed) while single-frame lengths take the full product.
	small := []int{0, 1, 2, 3, 4, 5, 127, 128, 129, 16379, 16380, 16381, 16384, 16385}
	medium := []int{65535, 65536}
	for i := 0; i < kit.N(4, 16); i++ {
		medium = append(medium, r.Intn(200000))
	}
	bound := []int{c11Max - 2, c11Max - 1, c11Max, c11Max + 1, 2*c11Max - 1, 2 * c11Max, 2*c11Max + 1}
	if thorough {
		bound = append(bound, 3*c11Max)
	}
	rnd := []int{}
	for i := 0; i < kit.N(1, 4); i++ {
		switch r.Intn(3) {
		case 0: // near a multiple of the frame limit
			rnd = append(rnd, r.Range(1, 2)*c11Max+r.Range(-600, 600))
		case 1:
			rnd = append(rnd, r.Range(c11Max, 2*c11Max+c11Slack-1))
		default:
			rnd = append(rnd, r.Range(200000, c11Max-3))
		}
	}
	maxLen := 0
	for _, n := range append(append([]int{}, bound...), rnd...) {
		if n > maxLen {
			maxLen = n
		}
	}
	// master + reassembled payload with its append growth + written frame copy + next frame + slack
	debug.SetMemoryLimit(3*int64(maxLen) + 2*c11Max + 16<<20)
	m := &c11Mon{rec: rec, master: c11Master(seed, maxLen+c11Slack), wd: wd, need: map[string]c11Need{}}
	mk := func(n, seq int, frag, reader, writer string, perturb, delta int) c11Case {
		return c11Case{MasterSeed: seed, Len: n, Off: r.Intn(16), Seq: seq, Frag: frag, FragSeed: r.Uint64(), Reader: reader, Writer: writer, Perturb: perturb, Delta: delta}
	}
	product := func(n int) {
		for _, seq := range seqs {
			for _, frag := range c11Frags {
				for _, reader := range c11Readers {
					for _, writer := range c11Writers {
						m.one(mk(n, seq, frag, reader, writer, -1, 0))
					}
				}
			}
		}
	}
	// k cases; reader alternates starting from rot, the fragmentations are walked in order,
	// sequence and writer are drawn from the seed
	cover := func(n, k, rot int) {
		for i := 0; i < k; i++ {
			m.one(mk(n, seqs[r.Intn(5)], c11Frags[(rot+i)%6], c11Readers[(rot+i)%2], c11Writers[r.Intn(3)], -1, 0))
		}
	}
	perturb := func(n, k int, reader string, defaults bool, ds []int) {
		for _, d := range ds {
			if defaults {
				m.one(mk(n, 0, "whole", reader, "direct", k, d))
			} else {
				m.one(mk(n, seqs[r.Intn(5)], c11Frags[r.Intn(6)], reader, c11Writers[r.Intn(3)], k, d))
			}
		}
	}
	perturbAll := func(n int, ds []int) {
		for k := range c11ExpFrames(n) {
			for _, reader := range c11Readers {
				perturb(n, k, reader, false, ds)
			}
		}
	}
	oneDelta := func() []int { return []int{deltas[r.Intn(4)]} }

	// (1) single-frame lengths
	for _, n := range small {
		product(n)
		if thorough {
			perturbAll(n, deltas)
		} else {
			perturbAll(n, oneDelta())
		}
	}
	fmt.Printf("progress: small lengths done, %d cases\n", m.cases)
	for li, n := range medium {
		if thorough {
			product(n)
		} else {
			cover(n, 12, li+int(seed%6))
		}
		perturbAll(n, oneDelta())
	}
	fmt.Printf("progress: medium lengths done, %d cases\n", m.cases)
	// (2) lengths at and across the frame limit
	if thorough {
		for li, n := range bound {
			cover(n, 2, li+int(seed%6))
			perturbAll(n, oneDelta())
		}
		for li, n := range rnd {
			cover(n, 1, li+int(seed%6)+1)
			fl := c11ExpFrames(n)
			perturb(n, r.Intn(len(fl)), c11Readers[r.Intn(2)], false, oneDelta())
		}
	} else {
		// every reader: a frame plus its empty terminator, unperturbed and with the
		// terminator's sequence id altered, and a payload of two full frames (plus one byte
		// for one reader, plus the empty terminator for the other); the altered last /
		// middle / first frame and one more boundary length alternate between the readers
		// with the seed (the thorough tier runs all of them for both readers)
		ra, rb := c11Readers[int(seed%2)], c11Readers[int((seed+1)%2)]
		for _, reader := range c11Readers {
			m.one(mk(c11Max, seqs[r.Intn(5)], c11Frags[r.Intn(6)], reader, c11Writers[r.Intn(3)], -1, 0))
			perturb(c11Max, 1, reader, true, []int{1}) // empty terminator, default features
		}
		m.one(mk(2*c11Max+1, seqs[r.Intn(5)], c11Frags[1+r.Intn(5)], ra, c11Writers[r.Intn(3)], -1, 0))
		m.one(mk(2*c11Max, seqs[r.Intn(5)], c11Frags[1+r.Intn(5)], rb, c11Writers[r.Intn(3)], -1, 0))
		perturb(c11Max+1, 1, rb, false, oneDelta())               // last
		perturb(2*c11Max+1-int(seed%2), 1, ra, false, oneDelta()) // middle
		perturb(c11Max+1-int(seed%2), 0, rb, false, oneDelta())   // first / only
		rest := []int{c11Max - 2, c11Max - 1, c11Max + 1, 2*c11Max - 1}
		cover(rest[int(seed%4)], 1, int(seed%6))
		for li, n := range rnd {
			cover(n, 1, li+int(seed%6)+1)
		}
	}
	fmt.Printf("progress: multi-frame lengths done, %d cases\n", m.cases)
	// (3) several connections sharing the buffer pool concurrently
	if !m.aborted {
		c11Soak(rec, m.master, wd)
	}
	lens := append(append(append(append([]int{}, small...), medium...), bound...), rnd...)
	sort.Ints(lens)
	rec.Set("payload_lengths", lens)
}
