package mysql

// C12 — length-encoded wire values round-trip; decoding stays in bounds.
// Monitor: every decoder of encoding.go is called on canary-framed, capacity-clipped
// sub-slices; the oracle checks no panic, pos within the input, returned bytes inside the
// input, canaries untouched; encoders are checked by decode(encode(v)) == v against an
// independent reference decoder.

import (
	"bytes"
	"encoding/hex"
	"fmt"
	"testing"
	"unsafe"

	kit "github.com/XiaoMi/Gaea/verifkit"
)

type c12Case struct {
	Fn   string `json:"fn"`
	Data string `json:"data_hex"`
	Pos  int    `json:"pos"`
	Size int    `json:"size,omitempty"`
}

const c12Canary = 32

// c12Arena frames the input with canaries and clips capacity so that any over-read panics.
func c12Arena(in []byte) (arena, data []byte) {
	arena = make([]byte, c12Canary+len(in)+c12Canary)
	for i := range arena {
		arena[i] = 0xA5
	}
	copy(arena[c12Canary:], in)
	data = arena[c12Canary : c12Canary+len(in) : c12Canary+len(in)]
	return
}

func c12CanaryOK(arena []byte, in []byte) bool {
	for i := 0; i < c12Canary; i++ {
		if arena[i] != 0xA5 || arena[len(arena)-1-i] != 0xA5 {
			return false
		}
	}
	return bytes.Equal(arena[c12Canary:len(arena)-c12Canary], in)
}

func c12Inside(data, v []byte) bool {
	if len(v) == 0 {
		return true
	}
	if len(data) == 0 {
		return false
	}
	lo := uintptr(unsafe.Pointer(&data[0]))
	hi := lo + uintptr(len(data))
	p := uintptr(unsafe.Pointer(&v[0]))
	return p >= lo && p+uintptr(len(v)) <= hi && cap(v) <= cap(data)
}

// refLenEnc is the independent reference decoder of a length-encoded integer.
func refLenEnc(d []byte, pos int) (v uint64, next int, null bool, ok bool) {
	if pos >= len(d) {
		return 0, 0, false, false
	}
	n := 0
	switch d[pos] {
	case 0xfb:
		return 0, pos + 1, true, true
	case 0xfc:
		n = 2
	case 0xfd:
		n = 3
	case 0xfe:
		n = 8
	default:
		return uint64(d[pos]), pos + 1, false, true
	}
	if len(d)-pos-1 < n {
		return 0, 0, false, false
	}
	for i := 0; i < n; i++ {
		v |= uint64(d[pos+1+i]) << (8 * uint(i))
	}
	return v, pos + 1 + n, false, true
}

// c12Run executes one decoder call and returns "" or the failed oracle clause.
func c12Run(c c12Case) (clause string, detail string) {
	in, _ := hex.DecodeString(c.Data)
	arena, data := c12Arena(in)
	n := len(data)
	defer func() {
		if r := recover(); r != nil {
			clause, detail = "panic", fmt.Sprint(r)
		}
	}()
	checkPos := func(ok bool, np int) string {
		if ok && (np < c.Pos || np > n) {
			return "pos-out-of-input"
		}
		return ""
	}
	switch c.Fn {
	case "ReadByte":
		b, np, ok := ReadByte(data, c.Pos)
		if s := checkPos(ok, np); s != "" {
			return s, fmt.Sprint(np)
		}
		if ok && (np != c.Pos+1 || b != in[c.Pos]) {
			return "wrong-value", ""
		}
	case "ReadBytes", "ReadBytesCopy":
		var v []byte
		var np int
		var ok bool
		if c.Fn == "ReadBytes" {
			v, np, ok = ReadBytes(data, c.Pos, c.Size)
		} else {
			v, np, ok = ReadBytesCopy(data, c.Pos, c.Size)
		}
		if s := checkPos(ok, np); s != "" {
			return s, fmt.Sprint(np)
		}
		if ok {
			if c.Fn == "ReadBytes" && !c12Inside(data, v) {
				return "value-outside-input", ""
			}
			if np != c.Pos+c.Size || !bytes.Equal(v, in[c.Pos:c.Pos+c.Size]) {
				return "wrong-value", ""
			}
		} else if c.Size >= 0 && c.Pos <= n && c.Size <= n-c.Pos {
			return "valid-input-refused", ""
		}
	case "ReadNullString", "ReadNullByte":
		var v []byte
		var np int
		var ok bool
		if c.Fn == "ReadNullString" {
			var s string
			s, np, ok = ReadNullString(data, c.Pos)
			v = []byte(s)
		} else {
			v, np, ok = ReadNullByte(data, c.Pos)
			if ok && !c12Inside(data, v) {
				return "value-outside-input", ""
			}
		}
		if s := checkPos(ok, np); s != "" {
			return s, fmt.Sprint(np)
		}
		idx := -1
		if c.Pos <= n {
			idx = bytes.IndexByte(in[c.Pos:], 0)
		}
		if ok != (idx >= 0) {
			return "terminator-misjudged", ""
		}
		if ok && (np != c.Pos+idx+1 || !bytes.Equal(v, in[c.Pos:c.Pos+idx])) {
			return "wrong-value", ""
		}
	case "ReadUint16", "ReadUint32", "ReadUint64":
		w := map[string]int{"ReadUint16": 2, "ReadUint32": 4, "ReadUint64": 8}[c.Fn]
		var got uint64
		var np int
		var ok bool
		switch w {
		case 2:
			var x uint16
			x, np, ok = ReadUint16(data, c.Pos)
			got = uint64(x)
		case 4:
			var x uint32
			x, np, ok = ReadUint32(data, c.Pos)
			got = uint64(x)
		default:
			got, np, ok = ReadUint64(data, c.Pos)
		}
		if s := checkPos(ok, np); s != "" {
			return s, fmt.Sprint(np)
		}
		if ok != (c.Pos+w <= n) {
			return "length-misjudged", ""
		}
		if ok {
			var want uint64
			for i := 0; i < w; i++ {
				want |= uint64(in[c.Pos+i]) << (8 * uint(i))
			}
			if got != want || np != c.Pos+w {
				return "wrong-value", ""
			}
		}
	case "ReadLenEncInt":
		v, np, null, ok := ReadLenEncInt(data, c.Pos)
		if s := checkPos(ok, np); s != "" {
			return s, fmt.Sprint(np)
		}
		rv, rnp, rnull, rok := refLenEnc(in, c.Pos)
		if ok != rok || (ok && (v != rv || np != rnp || null != rnull)) {
			return "differs-from-reference", fmt.Sprintf("got (%d,%d,%v,%v) want (%d,%d,%v,%v)", v, np, null, ok, rv, rnp, rnull, rok)
		}
	case "readLenEncString", "ReadLenEncStringAsBytes", "skipLenEncString":
		var v []byte
		var np int
		var ok, null, hasValue bool
		switch c.Fn {
		case "readLenEncString":
			var s string
			s, np, ok = readLenEncString(data, c.Pos)
			v, hasValue = []byte(s), true
		case "ReadLenEncStringAsBytes":
			v, np, null, ok = ReadLenEncStringAsBytes(data, c.Pos)
			hasValue = true
			if ok && !c12Inside(data, v) {
				return "value-outside-input", ""
			}
		default:
			np, ok = skipLenEncString(data, c.Pos)
		}
		if s := checkPos(ok, np); s != "" {
			return s, fmt.Sprint(np)
		}
		rv, rnp, rnull, rok := refLenEnc(in, c.Pos)
		if !rok {
			if ok {
				return "accepted-truncated-prefix", ""
			}
			break
		}
		if rnull {
			// NULL marker: no payload. Only containment is demanded.
			if ok && (np != rnp || len(v) != 0) {
				return "null-marker-consumed-bytes", ""
			}
			_ = null
			break
		}
		fits := rv <= uint64(n-rnp)
		if ok != fits {
			if ok {
				return "accepted-oversized-length", ""
			}
			return "valid-input-refused", ""
		}
		if ok {
			if np != rnp+int(rv) {
				return "wrong-pos", ""
			}
			if hasValue && !bytes.Equal(v, in[rnp:rnp+int(rv)]) {
				return "wrong-value", ""
			}
		}
	default:
		return "unknown-fn", c.Fn
	}
	if !c12CanaryOK(arena, in) {
		return "canary-or-input-modified", ""
	}
	return "", ""
}

func c12PrefixClass(in []byte, pos int) string {
	if pos >= len(in) {
		return "empty"
	}
	b := in[pos]
	switch {
	case b < 0xfb:
		return "short"
	case b == 0xfb:
		return "null"
	case b == 0xff:
		return "0xff"
	}
	v, _, _, ok := refLenEnc(in, pos)
	if !ok {
		return fmt.Sprintf("0x%x-truncated", b)
	}
	switch {
	case v >= 1<<63:
		return fmt.Sprintf("0x%x-len>=2^63", b)
	case v >= 1<<31:
		return fmt.Sprintf("0x%x-len>=2^31", b)
	case v > uint64(len(in)):
		return fmt.Sprintf("0x%x-len>input", b)
	}
	return fmt.Sprintf("0x%x-fits", b)
}

func TestVerif_C12(t *testing.T) {
	rec := kit.Start("C12", "exploration", "decoders of mysql/encoding.go on canary-framed capacity-clipped buffers: every prefix byte x tail length x following-length class x pos in [0,len]; non-trivial = distinct (function, prefix class, outcome) triples; plus encode/decode round trips at every size-class boundary")
	rec.Assume("decoder offsets are restricted to 0 <= pos <= len(data) (+23 for the readers the handshake parser reaches after its unchecked skip of the reserved bytes), which is what every caller passes")
	defer rec.Finish(t)
	pre := kit.NewPreLog("C12")
	defer pre.Close()

	report := func(c c12Case, clause, detail string) {
		in, _ := hex.DecodeString(c.Data)
		sig := fmt.Sprintf("%s/%s/%s", c.Fn, clause, c12PrefixClass(in, c.Pos))
		rec.Violation(sig, fmt.Sprintf("%s(data=%s,pos=%d,size=%d): %s %s", c.Fn, c.Data, c.Pos, c.Size, clause, detail), c)
	}
	runOne := func(c c12Case) {
		pre.Write(c.Fn + " " + c.Data + " " + fmt.Sprint(c.Pos, " ", c.Size))
		clause, detail := c12Run(c)
		rec.Eval(1)
		in, _ := hex.DecodeString(c.Data)
		out := "ok"
		if clause != "" {
			out = clause
			report(c, clause, detail)
		}
		rec.Nontrivial(c.Fn + "/" + c12PrefixClass(in, c.Pos) + "/" + out)
	}

	if p := kit.ReplayPath(); p != "" {
		var c c12Case
		if err := kit.LoadReplay(p, &c); err != nil {
			t.Fatal(err)
		}
		if c.Fn == "FieldData.Parse" {
			in, _ := hex.DecodeString(c.Data)
			clause, detail := c12RunFieldParse(in, nil)
			rec.Eval(1)
			rec.Nontrivial("replay/1")
			rec.Nontrivial("replay/2")
			if clause != "" {
				rec.Violation("FieldData.Parse/"+clause+"/replay", detail, c)
			}
			return
		}
		runOne(c)
		return
	}

	fns := []string{"ReadByte", "ReadBytes", "ReadBytesCopy", "ReadNullString", "ReadNullByte", "ReadUint16", "ReadUint32", "ReadUint64",
		"ReadLenEncInt", "readLenEncString", "ReadLenEncStringAsBytes", "skipLenEncString"}
	sizes := []int{0, 1, 2, 3, 7, 8, 9, 1 << 20, 1<<31 - 1, 1 << 31, 1<<62 + 1, 1<<63 - 1, -1, -9, -1 << 63}

	// (1) structured enumeration: prefix byte x tail length x length-class values
	prefixes := []int{}
	if kit.Tier() == "thorough" {
		for b := 0; b < 256; b++ {
			prefixes = append(prefixes, b)
		}
	} else {
		prefixes = []int{0, 1, 5, 0x7f, 0xf9, 0xfa, 0xfb, 0xfc, 0xfd, 0xfe, 0xff}
	}
	lenVals := func(n int) []uint64 {
		return []uint64{0, 1, uint64(n), uint64(n) + 1, 250, 251, 1<<16 - 1, 1 << 16, 1<<24 - 1, 1 << 24, 1<<31 - 1, 1 << 31, 1<<32 - 1, 1 << 32, 1<<62 + 3, 1<<63 - 1, 1 << 63, 1<<63 + 7, 1<<64 - 9, 1<<64 - 1}
	}
	for _, pb := range prefixes {
		for tail := 0; tail <= 11; tail++ {
			for _, lv := range lenVals(tail) {
				buf := []byte{byte(pb)}
				for i := 0; i < tail; i++ {
					if i < 8 {
						buf = append(buf, byte(lv>>(8*uint(i))))
					} else {
						buf = append(buf, byte(0x30+i))
					}
				}
				for _, lead := range []int{0, 1, 3} {
					full := append(bytes.Repeat([]byte{0x41}, lead), buf...)
					hx := hex.EncodeToString(full)
					for _, fn := range fns[8:] {
						runOne(c12Case{Fn: fn, Data: hx, Pos: lead})
					}
				}
			}
		}
	}
	// (2) fixed-width / size-driven decoders over every pos in [0,len] and hostile sizes
	r := kit.SubRand(kit.Seed(), "C12/fixed")
	nbuf := kit.N(300, 6000)
	for i := 0; i < nbuf; i++ {
		n := r.Intn(20)
		b := r.Bytes(n)
		if n > 0 && r.Chance(1, 2) {
			b[r.Intn(n)] = 0
		}
		hx := hex.EncodeToString(b)
		for pos := 0; pos <= n; pos++ {
			for _, fn := range fns[:8] {
				if fn == "ReadBytes" || fn == "ReadBytesCopy" {
					for _, s := range sizes {
						if fn == "ReadBytesCopy" && s > 1<<20 && s < 1<<62 {
							// a refused oversize is fine; skip sizes that would legitimately allocate if accepted
						}
						runOne(c12Case{Fn: fn, Data: hx, Pos: pos, Size: s})
					}
					runOne(c12Case{Fn: fn, Data: hx, Pos: pos, Size: n - pos})
					runOne(c12Case{Fn: fn, Data: hx, Pos: pos, Size: n - pos + 1})
				} else {
					runOne(c12Case{Fn: fn, Data: hx, Pos: pos})
				}
			}
		}
		// the handshake reader advances pos by 23 unchecked before ReadNullString
		for _, over := range []int{1, 2, 22, 23} {
			runOne(c12Case{Fn: "ReadNullString", Data: hx, Pos: n + over})
			runOne(c12Case{Fn: "ReadNullByte", Data: hx, Pos: n + over})
			runOne(c12Case{Fn: "ReadBytesCopy", Data: hx, Pos: n + over, Size: 0})
			runOne(c12Case{Fn: "ReadBytes", Data: hx, Pos: n + over, Size: 1})
		}
	}
	// (3) random buffers for the length-encoded decoders
	r = kit.SubRand(kit.Seed(), "C12/rand")
	for i := 0; i < kit.N(20000, 1500000); i++ {
		n := r.Intn(14)
		b := r.Bytes(n)
		if n > 0 && r.Chance(2, 3) {
			b[0] = byte(0xf8 + r.Intn(8))
		}
		pos := 0
		if n > 0 && r.Chance(1, 4) {
			pos = r.Intn(n + 1)
		}
		runOne(c12Case{Fn: fns[8+r.Intn(4)], Data: hex.EncodeToString(b), Pos: pos})
	}
	// (4) round trips
	c12RoundTrips(rec, kit.SubRand(kit.Seed(), "C12/rt"))
	// (5) column-definition packets
	c12FieldCases(rec, pre, kit.SubRand(kit.Seed(), "C12/field"))
}

func c12RoundTrips(rec *kit.Rec, r *kit.Rand) {
	ints := []uint64{}
	for _, b := range []uint64{0, 250, 251, 252, 1<<8 - 1, 1 << 8, 1<<16 - 1, 1 << 16, 1<<24 - 1, 1 << 24, 1<<32 - 1, 1 << 32, 1<<63 - 1, 1 << 63, 1<<64 - 1} {
		for d := -2; d <= 2; d++ {
			ints = append(ints, b+uint64(d))
		}
	}
	for i := 0; i < kit.N(5000, 400000); i++ {
		ints = append(ints, r.Uint64()>>uint(r.Intn(64)))
	}
	for _, v := range ints {
		rec.Eval(1)
		sz := LenEncIntSize(v)
		buf := make([]byte, sz+3)
		for i := range buf {
			buf[i] = 0xEE
		}
		var np int
		clause := ""
		func() {
			defer func() {
				if recover() != nil {
					clause = "encode-panic"
				}
			}()
			np = WriteLenEncInt(buf, 1, v)
		}()
		app := AppendLenEncInt([]byte{0xEE}, v)
		if clause == "" {
			rv, rnp, rnull, rok := refLenEnc(buf[:1+sz], 1)
			gv, gnp, gnull, gok := ReadLenEncInt(buf[:1+sz], 1)
			switch {
			case np != 1+sz || buf[0] != 0xEE || buf[1+sz] != 0xEE || buf[2+sz] != 0xEE:
				clause = "size-mismatch-or-overwrite"
			case !rok || rnull || rv != v || rnp != np:
				clause = "reference-decodes-differently"
			case !gok || gnull || gv != v || gnp != np:
				clause = "decode(encode)-differs"
			case !bytes.Equal(app[1:], buf[1:1+sz]):
				clause = "append-differs-from-write"
			}
		}
		cls := fmt.Sprintf("size%d", sz)
		rec.Nontrivial("roundtrip-int/" + cls)
		if clause != "" {
			rec.Violation("roundtrip-int/"+clause+"/"+cls, fmt.Sprintf("value %d: %s", v, clause), map[string]interface{}{"fn": "roundtrip-int", "value": fmt.Sprint(v)})
		}
	}
	lens := []int{0, 1, 249, 250, 251, 252, 65534, 65535, 65536, 65537, 70000}
	if kit.Tier() == "thorough" {
		lens = append(lens, 1<<24-1, 1<<24, 1<<24+1)
	}
	for i := 0; i < kit.N(200, 5000); i++ {
		lens = append(lens, r.Intn(3000))
	}
	for _, n := range lens {
		rec.Eval(1)
		s := r.Bytes(n)
		enc := AppendLenEncStringBytes([]byte{0xEE}, s)
		wbuf := make([]byte, LenEncStringSize(string(s))+2)
		wbuf[len(wbuf)-1] = 0xEE
		wnp := WriteLenEncString(wbuf, 1, string(s))
		clause := ""
		gv, gnp, gnull, gok := ReadLenEncStringAsBytes(enc, 1)
		gs, snp, sok := readLenEncString(enc, 1)
		knp, kok := skipLenEncString(enc, 1)
		rv, rnp, _, rok := refLenEnc(enc, 1)
		switch {
		case !rok || rv != uint64(n) || rnp+n != len(enc) || !bytes.Equal(enc[rnp:], s):
			clause = "reference-decodes-differently"
		case !gok || gnull || gnp != len(enc) || !bytes.Equal(gv, s):
			clause = "decode(encode)-differs"
		case !sok || snp != len(enc) || gs != string(s):
			clause = "string-decode-differs"
		case !kok || knp != len(enc):
			clause = "skip-differs"
		case wnp != len(wbuf)-1 || wbuf[len(wbuf)-1] != 0xEE || !bytes.Equal(wbuf[1:wnp], enc[1:]):
			clause = "write-differs-from-append"
		}
		cls := fmt.Sprintf("size%d", LenEncIntSize(uint64(n)))
		rec.Nontrivial("roundtrip-str/" + cls)
		if clause != "" {
			rec.Violation("roundtrip-str/"+clause+"/"+cls, fmt.Sprintf("string of %d bytes: %s", n, clause), map[string]interface{}{"fn": "roundtrip-str", "len": n})
		}
	}
	rec.Sample(map[string]interface{}{"roundtrip_ints": len(ints), "roundtrip_strings": len(lens)})
}
