package mysql

// C12, second decoder family: FieldData.Parse (column-definition packets are sequences of
// length-encoded strings plus a fixed tail and, for COM_FIELD_LIST, a length-encoded default
// value). Same oracle as the scalar decoders: no panic, every returned byte slice lies inside
// the input, and a well-formed packet decodes to the values it was built from.

import (
	"bytes"
	"encoding/hex"
	"fmt"

	kit "github.com/XiaoMi/Gaea/verifkit"
)

type c12FieldParts struct {
	strs [6][]byte // catalog, schema, table, org_table, name, org_name
	tail []byte    // 0x0c + charset(2) + length(4) + type(1) + flags(2) + decimals(1) + filler(2)
	def  []byte    // nil = no default-value part
}

func c12LenEnc(b []byte) []byte {
	return AppendLenEncStringBytes(nil, b)
}

func (p c12FieldParts) bytes() []byte {
	var out []byte
	for _, s := range p.strs {
		out = append(out, c12LenEnc(s)...)
	}
	out = append(out, p.tail...)
	if p.def != nil {
		out = append(out, c12LenEnc(p.def)...)
	}
	return out
}

// c12RunFieldParse parses one (possibly hostile) column definition. expect != nil means the
// packet is well formed and must decode to these parts.
func c12RunFieldParse(in []byte, expect *c12FieldParts) (clause, detail string) {
	arena, data := c12Arena(in)
	defer func() {
		if r := recover(); r != nil {
			clause, detail = "panic", fmt.Sprint(r)
		}
	}()
	f, err := FieldData(data).Parse()
	if err == nil && f != nil {
		for i, s := range [][]byte{f.Schema, f.Table, f.OrgTable, f.Name, f.OrgName, f.DefaultValue} {
			if !c12Inside(data, s) {
				return "value-outside-input", fmt.Sprintf("member %d", i)
			}
		}
	}
	if expect != nil {
		if err != nil {
			return "valid-input-refused", err.Error()
		}
		got := [][]byte{f.Schema, f.Table, f.OrgTable, f.Name, f.OrgName}
		for i := range got {
			if !bytes.Equal(got[i], expect.strs[i+1]) {
				return "wrong-value", fmt.Sprintf("member %d", i)
			}
		}
		if expect.def != nil && !bytes.Equal(f.DefaultValue, expect.def) {
			return "wrong-value", "default"
		}
		if f.Type != expect.tail[7] {
			return "wrong-value", "type"
		}
	}
	if !c12CanaryOK(arena, in) {
		return "canary-or-input-modified", ""
	}
	return "", ""
}

func c12FieldCases(rec *kit.Rec, pre *kit.PreLog, r *kit.Rand) {
	run := func(in []byte, expect *c12FieldParts, class string) {
		hx := hex.EncodeToString(in)
		pre.Write("FieldData.Parse " + hx)
		clause, detail := c12RunFieldParse(in, expect)
		rec.Eval(1)
		out := "ok"
		if clause != "" {
			out = clause
			rec.Violation("FieldData.Parse/"+clause+"/"+class, fmt.Sprintf("FieldData.Parse(%s): %s %s", hx, clause, detail),
				c12Case{Fn: "FieldData.Parse", Data: hx})
		}
		rec.Nontrivial("FieldData.Parse/" + class + "/" + out)
	}
	hostile := []uint64{0, 1, 250, 251, 1<<16 - 1, 1 << 16, 1<<24 - 1, 1 << 24, 1<<31 - 1, 1 << 31, 1<<32 - 1, 1<<62 + 3, 1<<63 - 1, 1 << 63, 1<<64 - 9, 1<<64 - 1}
	n := kit.N(60, 3000)
	for i := 0; i < n; i++ {
		var p c12FieldParts
		p.strs[0] = []byte("def")
		for k := 1; k < 6; k++ {
			p.strs[k] = r.Bytes(r.Intn(12))
		}
		p.tail = append([]byte{0x0c}, r.Bytes(10)...)
		p.tail = append(p.tail, 0, 0)
		switch r.Intn(3) {
		case 1:
			p.def = []byte{}
		case 2:
			p.def = r.Bytes(r.Intn(9))
		}
		full := p.bytes()
		run(full, &p, "well-formed")
		// every truncation
		for cut := 0; cut < len(full); cut++ {
			run(full[:cut], nil, "truncated")
		}
		// hostile length prefixes for each of the 6 strings and the default value
		offs := []int{}
		o := 0
		for _, s := range p.strs {
			offs = append(offs, o)
			o += len(c12LenEnc(s))
		}
		defOff := o + len(p.tail)
		for which := 0; which <= 6; which++ {
			for _, hv := range hostile {
				var pfx []byte
				pfx = AppendLenEncInt(pfx, hv)
				var mutated []byte
				if which < 6 {
					mutated = append(append(append([]byte{}, full[:offs[which]]...), pfx...), full[offs[which]+1:]...)
				} else {
					mutated = append(append([]byte{}, full[:defOff]...), pfx...)
					mutated = append(mutated, r.Bytes(r.Intn(6))...)
				}
				cls := "hostile-length"
				if which == 6 {
					cls = "hostile-default-length"
				}
				run(mutated, nil, cls)
			}
		}
		// default-value length around the remaining bytes
		base := append([]byte{}, full[:defOff]...)
		for rem := 0; rem <= 5; rem++ {
			for _, l := range []int{rem - 1, rem, rem + 1, rem + 2, len(base), len(base) + rem, len(base) + rem + 1} {
				if l < 0 {
					continue
				}
				m := append(append([]byte{}, base...), AppendLenEncInt(nil, uint64(l))...)
				m = append(m, r.Bytes(rem)...)
				run(m, nil, "default-length-vs-remaining")
			}
		}
	}
}
