package backend

// C26 — a replica is fused exactly when recent connection errors reach the threshold.
//
// Monitor: (a) the real SlidingWindow.Trigger is fed non-decreasing timestamp sequences and
// each answer is compared with a reference multiset of timestamps:
//     fired  <=>  |{t_i : t-W < t_i <= t}| >= min          (the current error included);
// a disabled window never fires. (b) the same through the real Slice.getConnWithFuse /
// Slice.TryFuse with a fake pool returning scripted errors and the virtual clock of hook
// H1: the node is marked down exactly at the error that makes the reference count reach
// min; only errors for which mysql.AsConnError holds count; nil and other errors never
// count; fuse_enabled=off (policy not installed) never marks a node down. (c) replica GROUPS:
// a slice with 2-3 replicas in Slave and 1-2 in StatisticSlave whose strategies are installed
// by the REAL Slice.InitFuseRecoveryPolicy / DBInfo.InitFuseRecoveryPolicy; errors are
// interleaved across replicas and groups and each replica has its own reference window: an
// error on one replica must never count for, or change the status of, another one.

import (
	"context"
	"errors"
	"fmt"
	"strings"
	"testing"

	"github.com/XiaoMi/Gaea/mysql"
	"github.com/XiaoMi/Gaea/util"
	kit "github.com/XiaoMi/Gaea/verifkit"
)

type c26SeqCase struct {
	Part string  `json:"part"` // "trigger"
	W    int64   `json:"window"`
	Min  int64   `json:"min"`
	Base int64   `json:"base"`
	Gaps []int64 `json:"gaps"` // gap before each trigger (first gap is added to base)
}

type c26Ev struct {
	Adv  int64  `json:"advance"` // clock advance before the event
	Kind string `json:"kind"`    // conn | pooltimeout | nil | plain | sql | closed | wrapped | deadline | hc-down | hc-up (status mark by the health checker)
	Via  string `json:"via"`     // get (fake pool error through getConnWithFuse) | direct (TryFuse)
}

type c26FuseCase struct {
	Part     string  `json:"part"` // "tryfuse"
	W        int64   `json:"window"`
	Min      int64   `json:"min"`
	Cooldown int64   `json:"cooldown"`
	Enabled  string  `json:"fuse_enabled"`
	Base     int64   `json:"base"`
	Manual   bool    `json:"manual_status"` // true: the node is only marked up/down by hc-up / hc-down events (and by the breaker)
	Events   []c26Ev `json:"events"`
}

func c26GapClass(w int64, g int64) string {
	switch {
	case g == 0:
		return "same-second"
	case g < w:
		return "inside-window"
	case g == w:
		return "exactly-window"
	default:
		return "beyond-window"
	}
}

// c26RunSeq replays one timestamp sequence; returns the failing clause ("" = held), the
// index of the failing trigger and a description.
func c26RunSeq(c c26SeqCase) (clause string, at int, detail string) {
	sw := NewSlidingWindow(c.W, c.Min)
	ref := &hcRefWindow{w: c.W, min: c.Min}
	t := c.Base
	for i, g := range c.Gaps {
		t += g
		got := sw.Trigger(t)
		want := ref.record(t)
		if got != want {
			clause = "missed-at-threshold"
			if got {
				clause = "fired-below-threshold"
			}
			if c.W <= 0 || c.Min <= 0 {
				clause = "disabled-fired"
			}
			return clause, i, fmt.Sprintf("trigger %d at t=%d: Trigger=%v, reference count in (t-%d,t] = %d, min=%d", i, t, got, c.W, ref.count(t), c.Min)
		}
	}
	return "", -1, ""
}

// c26ShrinkSeq removes triggers one at a time while the sequence still fails.
func c26ShrinkSeq(c c26SeqCase) c26SeqCase {
	for changed := true; changed; {
		changed = false
		for i := 0; i < len(c.Gaps) && len(c.Gaps) > 1; i++ {
			d := c26SeqCase{Part: c.Part, W: c.W, Min: c.Min, Base: c.Base}
			for j, g := range c.Gaps {
				if j == i {
					// keep absolute times of the following triggers
					if j+1 < len(c.Gaps) {
						d.Gaps = append(d.Gaps, g+c.Gaps[j+1])
					}
					continue
				}
				if j == i+1 {
					continue
				}
				d.Gaps = append(d.Gaps, g)
			}
			if cl, _, _ := c26RunSeq(d); cl != "" {
				c = d
				changed = true
				break
			}
		}
	}
	return c
}

func c26SeqSig(c c26SeqCase, clause string, at int) string {
	// classes of the gaps of the minimal failing sequence, as a set
	seen := map[string]bool{}
	var cls []string
	for i, g := range c.Gaps {
		if i == 0 {
			continue
		}
		k := c26GapClass(c.W, g)
		if !seen[k] {
			seen[k] = true
			cls = append(cls, k)
		}
	}
	c26SortStrings(cls)
	base := "epoch"
	if c.Base < 1000 {
		base = "near-zero"
	}
	return "trigger/" + clause + "/" + base + "/" + strings.Join(cls, "+")
}

func c26SortStrings(a []string) {
	for i := 1; i < len(a); i++ {
		for j := i; j > 0 && a[j] < a[j-1]; j-- {
			a[j], a[j-1] = a[j-1], a[j]
		}
	}
}

func c26Err(kind string, addr string) error {
	switch kind {
	case "conn":
		return mysql.NewConnTypeError(addr, "failed to dial within timeout")
	case "pooltimeout":
		return util.ErrTimeout
	case "nil":
		return nil
	case "plain":
		return errors.New("some other failure")
	case "sql":
		return mysql.NewError(mysql.ErrServerShutdown, "Server shutdown in progress")
	case "closed":
		return ErrConnectionPoolClosed
	case "deadline":
		return context.DeadlineExceeded
	case "wrapped":
		return &getConnError{Namespace: "c26", Addr: addr, Err: errors.New("dial tcp: i/o timeout")}
	}
	return errors.New("unknown kind " + kind)
}

func c26Counts(kind string) bool { return kind == "conn" || kind == "pooltimeout" }

func c26RunFuse(c c26FuseCase) (clause string, at int, detail string) {
	clock := hcInstallClock(c.Base)
	node, pool := hcNode(1, 1, "dc", true, clock)
	d := &DBInfo{Nodes: []*NodeInfo{node}}
	s := &Slice{Namespace: "c26", FuseEnabled: c.Enabled, FuseWindowSize: c.W, FuseMinErrorCount: c.Min, FuseCooldownPeriod: c.Cooldown}
	hcEnableFuse(s, d) // what proxy/server.parseSlices does; an init error leaves the node without policy
	// reference, independent of the code under test: fuse_enabled is case-insensitive
	// (models.verifyFuseEnabled lower-cases), only "off" disables
	installed := strings.ToLower(c.Enabled) != "off"
	ref := &hcRefWindow{w: c.W, min: c.Min}
	var scripted error
	pool.getFn = func(p *hcPool) (PooledConnect, error) {
		if scripted != nil {
			return nil, scripted
		}
		return &hcConn{pool: p}, nil
	}
	for i, ev := range c.Events {
		clock.Advance(ev.Adv)
		clock.SetNsec(int64(i%7) * 142857142)
		switch ev.Kind {
		case "hc-down":
			node.SetStatusDown()
			continue
		case "hc-up":
			node.SetStatusUp()
			continue
		}
		if !c.Manual {
			node.SetStatusUp() // the harness plays "recovered" so that every event is observable
		}
		beforeUp := node.IsStatusUp()
		err := c26Err(ev.Kind, pool.addr)
		if ev.Via == "get" {
			scripted = err
			pc, gerr := s.getConnWithFuse(node)
			if (err == nil) != (gerr == nil) || (err == nil && pc == nil) {
				return "get-result-mismatch", i, fmt.Sprintf("event %d: pool returned %v, getConnWithFuse returned (%v, %v)", i, err, pc, gerr)
			}
		} else {
			s.TryFuse(node, err)
		}
		fire := false
		if installed && c26Counts(ev.Kind) {
			fire = ref.record(clock.Sec()) // every connection error counts, whatever the node's status
		}
		want := fire || !beforeUp
		got := node.IsStatusDown()
		if got != want {
			switch {
			case !got && !beforeUp:
				clause = "error-event-marked-node-up"
			case got && (!installed || c.W <= 0 || c.Min <= 0):
				clause = "disabled-fired"
			case got && !c26Counts(ev.Kind):
				clause = "other-error-counted"
			case got:
				clause = "fired-below-threshold"
			default:
				clause = "missed-at-threshold"
			}
			return clause, i, fmt.Sprintf("event %d (%s via %s) at t=%d: node was up=%v before, down=%v after; reference count of connection errors in (t-%d,t] = %d, min=%d, fuse_enabled=%q (enabled=%v)", i, ev.Kind, ev.Via, clock.Sec(), beforeUp, got, c.W, ref.count(clock.Sec()), c.Min, c.Enabled, installed)
		}
	}
	return "", -1, ""
}

type c26GEv struct {
	Adv   int64  `json:"advance"`
	Group int    `json:"group"` // 0 = Slave, 1 = StatisticSlave
	Node  int    `json:"node"`
	Kind  string `json:"kind"`
	Via   string `json:"via"`
}

type c26GroupCase struct {
	Part     string   `json:"part"` // "group"
	W        int64    `json:"window"`
	Min      int64    `json:"min"`
	Cooldown int64    `json:"cooldown"`
	Base     int64    `json:"base"`
	NSlave   int      `json:"slaves"`
	NStat    int      `json:"statistic_slaves"`
	Events   []c26GEv `json:"events"`
}

// c26RunGroup: strategies come from the real InitFuseRecoveryPolicy; one reference window
// per replica.
func c26RunGroup(c c26GroupCase) (clause string, at int, detail string) {
	clock := hcInstallClock(c.Base)
	s := &Slice{Namespace: "c26g", FuseEnabled: "on", FuseWindowSize: c.W, FuseMinErrorCount: c.Min, FuseCooldownPeriod: c.Cooldown}
	type rep struct {
		node     *NodeInfo
		pool     *hcPool
		ref      *hcRefWindow
		scripted error
	}
	groups := [2][]*rep{}
	mk := func(g, n int) *DBInfo {
		d := &DBInfo{}
		for i := 0; i < n; i++ {
			node, pool := hcNode(g*10+i, 1, "dc", true, clock)
			r := &rep{node: node, pool: pool, ref: &hcRefWindow{w: c.W, min: c.Min}}
			pool.getFn = func(p *hcPool) (PooledConnect, error) {
				if r.scripted != nil {
					return nil, r.scripted
				}
				return &hcConn{pool: p}, nil
			}
			d.Nodes = append(d.Nodes, node)
			groups[g] = append(groups[g], r)
		}
		return d
	}
	s.Slave = mk(0, c.NSlave)
	s.StatisticSlave = mk(1, c.NStat)
	if err := hcEnableFuse(s, s.Slave); err != nil {
		return "setup", -1, err.Error()
	}
	if err := hcEnableFuse(s, s.StatisticSlave); err != nil {
		return "setup", -1, err.Error()
	}
	for i, ev := range c.Events {
		if ev.Group < 0 || ev.Group > 1 || ev.Node < 0 || ev.Node >= len(groups[ev.Group]) {
			continue
		}
		clock.Advance(ev.Adv)
		tgt := groups[ev.Group][ev.Node]
		tgt.node.SetStatusUp()
		err := c26Err(ev.Kind, tgt.pool.addr)
		if ev.Via == "get" {
			tgt.scripted = err
			s.getConnWithFuse(tgt.node)
		} else {
			s.TryFuse(tgt.node, err)
		}
		t := clock.Sec()
		want := false
		if c26Counts(ev.Kind) {
			want = tgt.ref.record(t)
		}
		for g := range groups {
			for n, r := range groups[g] {
				if r != tgt && r.node.IsStatusDown() {
					return "other-replica-marked-down", i, fmt.Sprintf("event %d: %s on replica %d of group %d at t=%d marked replica %d of group %d down", i, ev.Kind, ev.Node, ev.Group, t, n, g)
				}
			}
		}
		got := tgt.node.IsStatusDown()
		tgt.node.SetStatusUp() // the harness plays "recovered": every replica is up before the next event
		if got != want {
			var all int64
			for g := range groups {
				for _, r := range groups[g] {
					all += r.ref.count(t)
				}
			}
			switch {
			case got && !c26Counts(ev.Kind):
				clause = "other-error-counted"
			case got && all >= c.Min:
				clause = "errors-of-another-replica-counted"
			case got:
				clause = "fired-below-threshold"
			default:
				clause = "missed-at-threshold"
			}
			return clause, i, fmt.Sprintf("event %d (%s via %s on replica %d of group %d) at t=%d: node down=%v; connection errors of THIS replica in (t-%d,t] = %d, of all replicas = %d, min=%d", i, ev.Kind, ev.Via, ev.Node, ev.Group, t, got, c.W, tgt.ref.count(t), all, c.Min)
		}
	}
	return "", -1, ""
}

func c26ShrinkGroup(c c26GroupCase) c26GroupCase {
	for changed := true; changed; {
		changed = false
		for i := 0; i < len(c.Events) && len(c.Events) > 1; i++ {
			d := c
			d.Events = nil
			for j, ev := range c.Events {
				if j == i {
					continue
				}
				if j == i+1 {
					ev.Adv += c.Events[i].Adv
				}
				d.Events = append(d.Events, ev)
			}
			if cl, _, _ := c26RunGroup(d); cl != "" {
				c, changed = d, true
				break
			}
		}
	}
	return c
}

// signature of the 1-minimal failing group history: clause + do the remaining events touch
// one replica, several replicas of one group, or both groups.
func c26GroupSig(c c26GroupCase, clause string) string {
	gs, ns := map[int]bool{}, map[int]bool{}
	for _, ev := range c.Events {
		gs[ev.Group] = true
		ns[ev.Group*10+ev.Node] = true
	}
	scope := "one-replica"
	if len(gs) > 1 {
		scope = "across-groups"
	} else if len(ns) > 1 {
		scope = "within-group"
	}
	return "group/" + clause + "/" + scope
}

func c26ShrinkFuse(c c26FuseCase) c26FuseCase {
	for changed := true; changed; {
		changed = false
		for i := 0; i < len(c.Events) && len(c.Events) > 1; i++ {
			d := c
			d.Events = nil
			for j, ev := range c.Events {
				if j == i {
					continue
				}
				if j == i+1 {
					ev.Adv += c.Events[i].Adv
				}
				d.Events = append(d.Events, ev)
			}
			if cl, _, _ := c26RunFuse(d); cl != "" {
				c = d
				changed = true
				break
			}
		}
	}
	return c
}

func c26FuseSig(c c26FuseCase, clause string, at int) string {
	kind, via := "?", "?"
	if at >= 0 && at < len(c.Events) {
		kind, via = c.Events[at].Kind, c.Events[at].Via
	}
	rec := "gradual"
	if c.Cooldown > 0 {
		rec = "hard"
	}
	sig := fmt.Sprintf("tryfuse/%s/%s/%s/enabled=%s/%s", clause, kind, via, strings.ToLower(c.Enabled), rec)
	if c.Enabled != strings.ToLower(c.Enabled) {
		sig += "/mixed-case-spelling"
	}
	for _, ev := range c.Events {
		if ev.Kind == "hc-down" || ev.Kind == "hc-up" {
			return sig + "/with-status-marks"
		}
	}
	return sig
}

func TestVerif_C26(t *testing.T) {
	hcSilenceLog()
	rec := kit.Start("C26", "exploration", "non-decreasing timestamp sequences over gaps {0,1,W-1,W,W+1,3W} for W,min in 1..4 enumerated exhaustively up to the tier's length (base times 0 and a realistic epoch), random length-40 sequences for W,min in 1..8, and error histories (8 error kinds, clock steps) through Slice.getConnWithFuse/TryFuse on the virtual clock; non-trivial = distinct (W,min,gap-class multiset, fired pattern) of sequences in which the breaker fired at least once and at least one error had left the window")
	defer rec.Finish(t)
	rec.Assume("timestamps are non-decreasing (the breaker is fed from one clock)")
	rec.Assume("a 'connection error' is an error for which mysql.AsConnError holds (mysql.ConnTypeError values, including util.ErrTimeout)")

	reportSeq := func(c c26SeqCase) {
		cl, _, _ := c26RunSeq(c)
		if cl == "" {
			return
		}
		m := c26ShrinkSeq(c)
		cl2, at2, det2 := c26RunSeq(m)
		rec.Violation(c26SeqSig(m, cl2, at2), fmt.Sprintf("SlidingWindow(W=%d,min=%d) base=%d gaps=%v: %s", m.W, m.Min, m.Base, m.Gaps, det2), m)
	}
	var triggers int64
	var firedN int64
	runSeq := func(c c26SeqCase, trackKey bool) {
		rec.Eval(1)
		triggers += int64(len(c.Gaps))
		cl, _, _ := c26RunSeq(c)
		if cl != "" {
			reportSeq(c)
			return
		}
		if trackKey {
			// describe what the reference saw: fired pattern and expiry
			ref := &hcRefWindow{w: c.W, min: c.Min}
			t := c.Base
			pat := make([]byte, 0, len(c.Gaps))
			fired, expired := false, false
			for _, g := range c.Gaps {
				t += g
				if ref.record(t) {
					pat = append(pat, '1')
					fired = true
				} else {
					pat = append(pat, '0')
				}
				if int64(len(ref.ts)) > ref.count(t) {
					expired = true
				}
			}
			if fired {
				firedN++
			}
			if fired && expired {
				cls := make([]string, 0, len(c.Gaps))
				for i, g := range c.Gaps {
					if i > 0 {
						cls = append(cls, c26GapClass(c.W, g))
					}
				}
				rec.Nontrivial(fmt.Sprintf("W%d/m%d/%s/%s", c.W, c.Min, strings.Join(cls, ","), pat))
			}
		}
	}
	runFuse := func(c c26FuseCase) {
		rec.Eval(1)
		rec.Count("tryfuse.events", int64(len(c.Events)))
		cl, _, _ := c26RunFuse(c)
		if cl == "" {
			return
		}
		m := c26ShrinkFuse(c)
		cl2, at2, det2 := c26RunFuse(m)
		rec.Violation(c26FuseSig(m, cl2, at2), fmt.Sprintf("TryFuse W=%d min=%d cooldown=%d enabled=%q events=%+v: %s", m.W, m.Min, m.Cooldown, m.Enabled, m.Events, det2), m)
	}

	runGroup := func(c c26GroupCase) {
		rec.Eval(1)
		rec.Count("group.events", int64(len(c.Events)))
		cl, _, _ := c26RunGroup(c)
		if cl == "" {
			return
		}
		m := c26ShrinkGroup(c)
		cl2, _, det2 := c26RunGroup(m)
		rec.Violation(c26GroupSig(m, cl2), fmt.Sprintf("group W=%d min=%d cooldown=%d slaves=%d statistic=%d events=%+v: %s", m.W, m.Min, m.Cooldown, m.NSlave, m.NStat, m.Events, det2), m)
	}

	if p := kit.ReplayPath(); p != "" {
		var probe struct {
			Part string `json:"part"`
		}
		kit.LoadReplay(p, &probe)
		if probe.Part == "burst" || probe.Part == "tickover" || probe.Part == "wiring" || (probe.Part == "tryfuse" && strings.Contains(p, "part_")) {
			rec.Eval(1)
			rec.Set("replay", "a case of another part of this check")
			return
		}
		if probe.Part == "group" {
			var c c26GroupCase
			kit.LoadReplay(p, &c)
			runGroup(c)
		} else if probe.Part == "tryfuse" {
			var c c26FuseCase
			kit.LoadReplay(p, &c)
			runFuse(c)
		} else {
			var c c26SeqCase
			kit.LoadReplay(p, &c)
			runSeq(c, true)
		}
		return
	}

	// (1) exhaustive sequences
	maxLen := kit.N(5, 7)
	var nSeq int64
	for w := int64(1); w <= 4; w++ {
		for m := int64(1); m <= 4; m++ {
			gapSet := []int64{}
			seen := map[int64]bool{}
			for _, g := range []int64{0, 1, w - 1, w, w + 1, 3 * w} {
				if g >= 0 && !seen[g] {
					seen[g] = true
					gapSet = append(gapSet, g)
				}
			}
			for _, base := range []int64{0, 1700000003} {
				gaps := make([]int64, maxLen)
				var walk func(pos int)
				walk = func(pos int) {
					if pos == maxLen {
						nSeq++
						runSeq(c26SeqCase{Part: "trigger", W: w, Min: m, Base: base, Gaps: append([]int64(nil), gaps...)}, nSeq%40 == 0 || kit.Tier() == "quick")
						return
					}
					for _, g := range gapSet {
						gaps[pos] = g
						walk(pos + 1)
					}
				}
				walk(0)
			}
		}
	}
	rec.Exhaustive(true)
	rec.Set("exhaustive_space", fmt.Sprintf("all sequences of %d triggers over gaps {0,1,W-1,W,W+1,3W}, W,min in 1..4, bases {0,1700000003}: %d sequences (every shorter sequence is a prefix)", maxLen, nSeq))

	// (2) random longer sequences, W,min in 1..8; also disabled windows
	r := kit.SubRand(kit.Seed(), "C26/random")
	for i, n := 0, kit.N(20000, 400000); i < n; i++ {
		w, m := int64(r.Range(1, 8)), int64(r.Range(1, 8))
		if r.Chance(1, 40) {
			w = int64(r.Range(-1, 0))
		}
		if r.Chance(1, 40) {
			m = int64(r.Range(-1, 0))
		}
		c := c26SeqCase{Part: "trigger", W: w, Min: m, Base: []int64{0, 5, 1700000000 + int64(r.Intn(100))}[r.Intn(3)]}
		for j := 0; j < 40; j++ {
			var g int64
			switch r.Intn(8) {
			case 0, 1, 2:
				g = 0
			case 3, 4:
				g = 1
			case 5:
				g = int64(r.Range(0, int(2*c26Abs(w)+2)))
			case 6:
				g = c26Abs(w) - 1 + int64(r.Intn(3))
			default:
				g = int64(r.Intn(4)) * c26Abs(w)
			}
			if g < 0 {
				g = 0
			}
			c.Gaps = append(c.Gaps, g)
		}
		runSeq(c, true)
	}

	// (3) through the slice: error kinds, enabled/disabled, both recovery policies
	r = kit.SubRand(kit.Seed(), "C26/tryfuse")
	kinds := []string{"conn", "conn", "conn", "pooltimeout", "nil", "plain", "sql", "closed", "deadline", "wrapped"}
	for i, n := 0, kit.N(6000, 150000); i < n; i++ {
		c := c26FuseCase{Part: "tryfuse", W: int64(r.Range(1, 8)), Min: int64(r.Range(1, 6)), Base: 1700000000 + int64(r.Intn(1000)), Enabled: []string{"on", "ON", "", "on", "oN", "off", "OFF", "Off", "oFf"}[r.Intn(9)], Manual: r.Chance(1, 3)}
		if r.Bool() {
			c.Cooldown = int64(r.Range(1, 30))
		}
		if r.Chance(1, 30) {
			c.W = 0
		}
		if r.Chance(1, 30) {
			c.Min = 0
		}
		if r.Chance(1, 60) {
			c.W = -1 // InitFuseRecoveryPolicy refuses: no policy installed
		}
		ne := r.Range(4, 30)
		for j := 0; j < ne; j++ {
			ev := c26Ev{Kind: kinds[r.Intn(len(kinds))], Via: "get"}
			if r.Chance(1, 3) {
				ev.Via = "direct"
			}
			if c.Manual && r.Chance(1, 4) {
				ev.Kind = []string{"hc-down", "hc-up", "hc-up"}[r.Intn(3)]
			}
			switch r.Intn(6) {
			case 0, 1, 2:
			case 3:
				ev.Adv = 1
			case 4:
				ev.Adv = c.W - 1 + int64(r.Intn(3))
				if ev.Adv < 0 {
					ev.Adv = 0
				}
			default:
				ev.Adv = int64(r.Intn(int(3*c26Abs(c.W) + 2)))
			}
			c.Events = append(c.Events, ev)
		}
		runFuse(c)
		if i < 4 {
			rec.Sample(c)
		}
	}
	// (3b) directed: errors that arrive while the health checker has the node marked down
	// still count; every valid spelling of the switch
	for _, sp := range []string{"on", "ON", "oN", "", "off", "OFF", "Off", "oFf"} {
		for _, cool := range []int64{0, 10} {
			for _, min := range []int64{2, 3, 4} {
				evs := []c26Ev{{Kind: "hc-down"}}
				for k := int64(0); k < min-1; k++ {
					evs = append(evs, c26Ev{Kind: "conn", Via: "get", Adv: k % 2})
				}
				evs = append(evs, c26Ev{Kind: "hc-up"}, c26Ev{Kind: "conn", Via: "get", Adv: 1})
				runFuse(c26FuseCase{Part: "tryfuse", W: 8, Min: min, Cooldown: cool, Enabled: sp, Base: 1700000000, Manual: true, Events: evs})
				burst := []c26Ev{}
				for k := int64(0); k < min+1; k++ {
					burst = append(burst, c26Ev{Kind: "conn", Via: "direct"})
				}
				runFuse(c26FuseCase{Part: "tryfuse", W: 8, Min: min, Cooldown: cool, Enabled: sp, Base: 1700000000, Events: burst})
			}
		}
	}

	// (4) replica groups built by the real InitFuseRecoveryPolicy, errors interleaved
	r = kit.SubRand(kit.Seed(), "C26/group")
	var crossKeys int64
	for i, n := 0, kit.N(5000, 120000); i < n; i++ {
		c := c26GroupCase{Part: "group", W: int64(r.Range(1, 8)), Min: int64(r.Range(2, 5)), Base: 1700000000 + int64(r.Intn(1000)), NSlave: r.Range(2, 3), NStat: r.Range(1, 2)}
		if r.Bool() {
			c.Cooldown = int64(r.Range(1, 30))
		}
		ne := r.Range(4, 30)
		touched := map[int]bool{}
		for j := 0; j < ne; j++ {
			ev := c26GEv{Kind: []string{"conn", "conn", "conn", "conn", "pooltimeout", "plain", "nil"}[r.Intn(7)], Via: "get"}
			if r.Chance(1, 3) {
				ev.Via = "direct"
			}
			if r.Chance(1, 4) {
				ev.Group = 1
				ev.Node = r.Intn(c.NStat)
			} else {
				ev.Node = r.Intn(c.NSlave)
			}
			switch r.Intn(8) {
			case 0:
				ev.Adv = 1
			case 1:
				ev.Adv = int64(r.Intn(int(c.W) + 2))
			}
			if c26Counts(ev.Kind) {
				touched[ev.Group*10+ev.Node] = true
			}
			c.Events = append(c.Events, ev)
		}
		runGroup(c)
		if len(touched) >= 2 {
			crossKeys++
			var sb strings.Builder
			fmt.Fprintf(&sb, "g/W%d/m%d/", c.W, c.Min)
			for _, ev := range c.Events {
				fmt.Fprintf(&sb, "%d.%d%d%s,", ev.Adv, ev.Group, ev.Node, ev.Kind[:1])
			}
			rec.Nontrivial(kit.Hash64(sb.String()))
		}
		if i < 2 {
			rec.Sample(c)
		}
	}
	// the statement's minimal cross-talk scenarios, always run
	for _, min := range []int64{2, 4} {
		var evs, evx []c26GEv
		for k := int64(0); k < min-1; k++ {
			evs = append(evs, c26GEv{Group: 0, Node: 0, Kind: "conn", Via: "get"})
			evx = append(evx, c26GEv{Group: 0, Node: 0, Kind: "conn", Via: "get"})
		}
		evs = append(evs, c26GEv{Group: 0, Node: 1, Kind: "conn", Via: "get"})
		evx = append(evx, c26GEv{Group: 1, Node: 0, Kind: "conn", Via: "get"})
		runGroup(c26GroupCase{Part: "group", W: 4, Min: min, Base: 1700000000, NSlave: 2, NStat: 1, Events: evs})
		runGroup(c26GroupCase{Part: "group", W: 4, Min: min, Base: 1700000000, NSlave: 2, NStat: 1, Events: evx})
	}
	rec.Count("group.histories_with_errors_on_several_replicas", crossKeys)
	VerifSetClock(nil)

	rec.Count("trigger.calls", triggers)
	rec.Count("trigger.sequences_in_which_reference_fired", firedN)
	rec.Sample(c26SeqCase{Part: "trigger", W: 3, Min: 2, Base: 1700000003, Gaps: []int64{0, 2, 1, 3, 0}})
	if triggers == 0 {
		rec.Inconclusive("no Trigger call observed")
	}
}

func c26Abs(x int64) int64 {
	if x < 0 {
		return -x
	}
	return x
}
