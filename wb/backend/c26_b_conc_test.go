package backend

// C26 part b (race build) — the breaker's window under concurrent error reports.
//
// Sessions report connection errors of one replica from many goroutines. The order in which
// the window's own lock serialises them is not observable, so the oracle keeps to what holds
// for EVERY serialisation:
//   (1) K goroutines report an error at the same second t on a fresh window(W,min): exactly
//       max(0,K-min+1) of the Trigger calls return true (the counter passes 1..K under the lock);
//   (2) tick-over, min=2: one error at t, then an error at t racing with an error at t+W
//       (which expires everything up to t): in both serialisations at least one of the two
//       calls returns true - a lost fuse is a violation;
//   (3) the same through Slice.TryFuse on a replica whose strategies come from the real
//       InitFuseRecoveryPolicy: after K concurrent connection errors at one second the node is
//       down iff K >= min; two replicas of one group hit concurrently are judged separately;
//   (4) the Go race detector must stay silent in backend/slide.go (runner, race_filter).

import (
	"fmt"
	"sync"
	"sync/atomic"
	"testing"

	"github.com/XiaoMi/Gaea/mysql"
	kit "github.com/XiaoMi/Gaea/verifkit"
)

type c26bCase struct {
	Part string `json:"part"` // burst | tickover | tryfuse
	W    int64  `json:"window"`
	Min  int64  `json:"min"`
	K    int    `json:"goroutines"`
	Cool int64  `json:"cooldown,omitempty"`
	Reps int    `json:"replicas,omitempty"`
}

func c26bBurst(c c26bCase, t int64) (trues int64) {
	sw := NewSlidingWindow(c.W, c.Min)
	var wg sync.WaitGroup
	start := make(chan struct{})
	for g := 0; g < c.K; g++ {
		wg.Add(1)
		go func() {
			defer wg.Done()
			<-start
			if sw.Trigger(t) {
				atomic.AddInt64(&trues, 1)
			}
		}()
	}
	close(start)
	wg.Wait()
	return trues
}

// c26bTickOver returns whether any of the two racing calls reported a fuse.
func c26bTickOver(w int64, t int64) bool {
	sw := NewSlidingWindow(w, 2)
	sw.Trigger(t)
	var r1, r2 bool
	var wg sync.WaitGroup
	start := make(chan struct{})
	wg.Add(2)
	go func() { defer wg.Done(); <-start; r1 = sw.Trigger(t) }()
	go func() { defer wg.Done(); <-start; r2 = sw.Trigger(t + w) }()
	close(start)
	wg.Wait()
	return r1 || r2
}

func c26bTryFuse(c c26bCase, clock *hcClock) (down []bool) {
	s := &Slice{Namespace: "c26b", FuseEnabled: "on", FuseWindowSize: c.W, FuseMinErrorCount: c.Min, FuseCooldownPeriod: c.Cool}
	d := &DBInfo{}
	for i := 0; i < c.Reps; i++ {
		n, _ := hcNode(i, 1, "dc", true, clock)
		d.Nodes = append(d.Nodes, n)
	}
	s.Slave = d
	hcEnableFuse(s, d)
	var wg sync.WaitGroup
	start := make(chan struct{})
	for i := range d.Nodes {
		node := d.Nodes[i]
		k := c.K - i // replica i receives K-i errors
		err := mysql.NewConnTypeError(node.Address, "dial timeout")
		for g := 0; g < k; g++ {
			wg.Add(1)
			go func() {
				defer wg.Done()
				<-start
				s.TryFuse(node, err)
			}()
		}
	}
	close(start)
	wg.Wait()
	for _, n := range d.Nodes {
		down = append(down, n.IsStatusDown())
	}
	return down
}

func TestVerif_C26b(t *testing.T) {
	hcSilenceLog()
	rec := kit.Start("C26", "exploration", "part b (race build): K in 1..12 goroutines report an error at one second on a fresh window for W,min in 1..6 (exact number of true answers); tick-over rounds for min=2, W in 1..4 (an error at t racing with one at t+W after one at t: a fuse must be reported); K concurrent connection errors through Slice.TryFuse on 1..3 replicas of a group built by the real InitFuseRecoveryPolicy; non-trivial = distinct (part,W,min,K) with K >= min >= 2")
	defer rec.Finish(t)
	rec.Assume("part b: only statements that hold for every serialisation of the concurrent reports are checked; data races in backend/slide.go reported by the race detector are violations")
	clock := hcInstallClock(1700000000)
	defer VerifSetClock(nil)

	report := func(c c26bCase, clause, detail string) {
		rec.Violation(fmt.Sprintf("concurrent/%s/%s", c.Part, clause), fmt.Sprintf("%s W=%d min=%d K=%d: %s", c.Part, c.W, c.Min, c.K, detail), c)
	}
	if p := kit.ReplayPath(); p != "" {
		// concurrent cases are re-run as part of the normal schedule; a replay only re-runs the
		// named scenario many times
		var c c26bCase
		if err := kit.LoadReplay(p, &c); err != nil || (c.Part != "burst" && c.Part != "tickover" && (c.Part != "tryfuse" || c.K == 0)) {
			rec.Eval(1)
			rec.Set("replay", "not a part-b case")
			return
		}
		for i := 0; i < 20000; i++ {
			rec.Eval(1)
			switch c.Part {
			case "burst":
				want := int64(c.K) - c.Min + 1
				if want < 0 {
					want = 0
				}
				if got := c26bBurst(c, 1700000000+int64(i)); got != want {
					report(c, "mismatch", fmt.Sprintf("%d true answers, every serialisation gives %d", got, want))
				}
			case "tickover":
				if !c26bTickOver(c.W, 1700000000+int64(i)) {
					report(c, "fuse-lost", "no call reported a fuse")
				}
			case "tryfuse":
				clock.Advance(100)
				for j, dn := range c26bTryFuse(c, clock) {
					if dn != (int64(c.K-j) >= c.Min) {
						report(c, "mismatch", fmt.Sprintf("replica %d down=%v", j, dn))
					}
				}
			}
		}
		return
	}
	reps := kit.N(3, 30)
	var calls int64
	for rep := 0; rep < reps; rep++ {
		for w := int64(1); w <= 6; w++ {
			for m := int64(1); m <= 6; m++ {
				for _, k := range []int{1, 2, 3, 4, 6, 8, 12} {
					c := c26bCase{Part: "burst", W: w, Min: m, K: k}
					got := c26bBurst(c, 1700000000+int64(rep))
					want := int64(k) - m + 1
					if want < 0 {
						want = 0
					}
					rec.Eval(1)
					calls += int64(k)
					if int64(k) >= m && m >= 2 {
						rec.Nontrivial(fmt.Sprintf("burst/%d/%d/%d", w, m, k))
					}
					if got != want {
						cl := "fuse-lost"
						if got > want {
							cl = "fired-below-threshold"
						}
						report(c, cl, fmt.Sprintf("%d of %d concurrent Trigger calls at one second returned true, every serialisation gives %d", got, k, want))
					}
				}
			}
		}
	}
	rec.Count("burst.trigger_calls", calls)

	rounds := kit.N(20000, 300000)
	lost := 0
	for i := 0; i < rounds; i++ {
		w := int64(1 + i%4)
		if !c26bTickOver(w, 1700000000+int64(i%1000)) {
			lost++
			if lost == 1 {
				report(c26bCase{Part: "tickover", W: w, Min: 2, K: 2}, "fuse-lost", "error at t, then an error at t racing with an error at t+W: neither call reported a fuse although two errors were within one window in either order")
			}
		}
	}
	rec.Eval(rounds)
	rec.Count("tickover.rounds", int64(rounds))
	rec.Count("tickover.rounds_without_fuse", int64(lost))
	rec.Nontrivial("tickover/min2")

	for rep := 0; rep < kit.N(2, 20); rep++ {
		for _, cool := range []int64{0, 7} {
			for m := int64(1); m <= 5; m++ {
				for _, k := range []int{1, 2, 3, 5, 8} {
					for nrep := 1; nrep <= 3; nrep++ {
						c := c26bCase{Part: "tryfuse", W: 4, Min: m, K: k, Cool: cool, Reps: nrep}
						clock.Advance(100)
						down := c26bTryFuse(c, clock)
						rec.Eval(1)
						if int64(k) >= m && m >= 2 {
							rec.Nontrivial(fmt.Sprintf("tryfuse/%d/%d/%d/%d", cool, m, k, nrep))
						}
						for i, dn := range down {
							want := int64(k-i) >= m
							if dn != want {
								cl := "fuse-lost"
								if dn {
									cl = "fired-below-threshold"
								}
								report(c, cl, fmt.Sprintf("replica %d of %d received %d concurrent connection errors at one second, min=%d: down=%v", i, nrep, k-i, m, dn))
							}
						}
					}
				}
			}
		}
	}
	rec.Sample(c26bCase{Part: "burst", W: 3, Min: 2, K: 8})
	rec.Sample(c26bCase{Part: "tickover", W: 1, Min: 2, K: 2})
}
