package backend

// C27 — fused replicas are not restored before their cool-down.
//
// Monitor: histories of {connection-error burst, single connection error, successful probe
// rounds, failed probe round, clock advance} are driven through the real Slice.TryRecover
// and Slice.getConnWithFuse/TryFuse (fake pools, virtual clock of hook H1) on a slice with a
// master that is up and one replica. After every elementary action the replica's status is
// read and judged by necessary conditions + bounded progress taken from the statement:
//   hard:    no down->up at clock < (LATEST time the breaker fired for the node, including
//            firings while it was already down) + cool-down; a successful round at
//            clock >= that instant leaves the node up.
//   gradual: at a down->up transition of a node the breaker took down, the number of
//            consecutive successful rounds since it was taken down / since the last failed
//            round is >= the penalty in force P(k) = min(n(n+1)/2,120), n = 3+k, k = number
//            of consecutive bad recoveries (fused again within two ping periods of the
//            recovery); after P(k)+1 consecutive successful rounds the node is up.
//   both:    a node never comes up in a round whose probe failed or through an error event;
//            it never goes down in a round without cause.

import (
	"errors"
	"fmt"
	"strings"
	"testing"

	"github.com/XiaoMi/Gaea/mysql"
	kit "github.com/XiaoMi/Gaea/verifkit"
)

type c27Step struct {
	Op string `json:"op"`          // burst | err | ok | fail | adv | mdown | mup (master marked down / up)
	N  int    `json:"n,omitempty"` // ok: number of rounds
	D  int64  `json:"d,omitempty"` // adv: seconds; ok/fail: seconds before each round
	R  int    `json:"r,omitempty"` // replica of the group the step is about (burst, err, ok, fail)
}

type c27Case struct {
	Policy    string    `json:"policy"` // hard | gradual
	W         int64     `json:"window"`
	Min       int64     `json:"min"`
	Cool      int64     `json:"cooldown"`
	DownAfter int       `json:"down_after"`
	FailKind  string    `json:"fail_kind"`          // getcheck | ping
	Replicas  int       `json:"replicas,omitempty"` // replicas in the group (0 = 1); strategies come from the real InitFuseRecoveryPolicy
	Steps     []c27Step `json:"steps"`
}

type c27Fail struct {
	Sig    string
	Clause string
	Detail string
	Chain  int
	Failed bool // a probe failed since the breaker took the node down
	StepAt int
	MDown  bool // the master was marked down in the failing round
	Sib    bool // a sibling replica of the group was down at that moment
}

func c27Penalty(k int) int64 {
	n := int64(3 + k)
	p := n * (n + 1) / 2
	if p > 120 {
		p = 120
	}
	return p
}

type c27Obs struct {
	Rounds, Errors, Fuses, Recoveries, BadRecoveries int
	MaxChain                                         int
}

// per-replica reference state
type c27Rep struct {
	node          *NodeInfo
	pool          *hcPool
	ref           *hcRefWindow
	probeOK       bool
	takenDown     int64 // time the breaker took the node down (up->down)
	latestTrigger int64 // latest time the reference says the breaker fired for this replica
	fusedDown     bool
	failedSince   bool
	consecOK      int64 // consecutive successful rounds since taken down / last failed round
	eligOK        int64 // those of them made while the master was up
	chain         int
	lastRecovery  int64
	lastPass      int64
}

// c27Run executes one history. A refuted clause does not end the history: the failure is
// recorded (first one per signature) and the reference continues from the observed status,
// so that a known finding early in a history cannot hide a different one later.
func c27Run(c c27Case) ([]*c27Fail, c27Obs) {
	var obs c27Obs
	var fails []*c27Fail
	addFail := func(f *c27Fail) {
		f.Sig = c27Sig(c, f)
		for _, g := range fails {
			if g.Sig == f.Sig {
				return
			}
		}
		fails = append(fails, f)
	}
	const base = int64(1700000000)
	clock := hcInstallClock(base)
	mnode, _ := hcNode(0, 1, "dc", true, clock)
	s := &Slice{Namespace: "c27", FuseEnabled: "on", FuseWindowSize: c.W, FuseMinErrorCount: c.Min}
	if c.Policy == "hard" {
		s.FuseCooldownPeriod = c.Cool
	}
	s.Master = &DBInfo{Nodes: []*NodeInfo{mnode}}
	s.Slave = &DBInfo{}
	nrep := c.Replicas
	if nrep < 1 {
		nrep = 1
	}
	reps := make([]*c27Rep, nrep)
	for i := range reps {
		node, pool := hcNode(1+i, 1, "dc", true, clock)
		rp := &c27Rep{node: node, pool: pool, ref: &hcRefWindow{w: c.W, min: c.Min}, probeOK: true}
		pool.checkFn = func(p *hcPool) (PooledConnect, error) {
			if !rp.probeOK && c.FailKind == "getcheck" {
				return nil, errors.New("get conn timeout")
			}
			cn := &hcConn{pool: p}
			if !rp.probeOK {
				cn.pingFn = func(*hcConn) error { return errors.New("ping: broken pipe") }
			}
			return cn, nil
		}
		connErr := mysql.NewConnTypeError(pool.addr, "failed to dial within timeout")
		pool.getFn = func(p *hcPool) (PooledConnect, error) { return nil, connErr }
		s.Slave.Nodes = append(s.Slave.Nodes, node)
		reps[i] = rp
	}
	// the strategies of every replica come from the real InitFuseRecoveryPolicy
	if err := hcEnableFuse(s, s.Slave); err != nil {
		return []*c27Fail{{Sig: "setup", Clause: "setup", Detail: err.Error()}}, obs
	}
	created := clock.Sec()
	clock.Advance(20) // first events happen more than two ping periods after the policy was created
	for _, rp := range reps {
		rp.pool.SetLastChecked()
		rp.lastRecovery = created
		rp.lastPass = clock.Sec()
	}
	masterUp := true
	siblingDown := func(me *c27Rep) bool {
		for _, o := range reps {
			if o != me && o.node.IsStatusDown() {
				return true
			}
		}
		return false
	}

	oneError := func(si int, rp *c27Rep) {
		obs.Errors++
		t := clock.Sec()
		before := rp.node.IsStatusUp()
		s.getConnWithFuse(rp.node)
		after := rp.node.IsStatusUp()
		trig := rp.ref.record(t)
		if trig {
			rp.latestTrigger = t
		}
		mk := func(cl, det string) *c27Fail {
			return &c27Fail{Clause: cl, Detail: det, StepAt: si, MDown: !masterUp, Sib: siblingDown(rp)}
		}
		switch {
		case !before && after:
			addFail(mk("up-through-error-event", fmt.Sprintf("t=%d", t)))
			rp.lastRecovery, rp.fusedDown, rp.failedSince = t, false, false
		case before && after && trig:
			addFail(mk("breaker-missed", fmt.Sprintf("t=%d reference count %d >= min %d but node still up", t, rp.ref.count(t), c.Min)))
		case before && !after && !trig:
			addFail(mk("breaker-early", fmt.Sprintf("t=%d reference count %d < min %d but node marked down", t, rp.ref.count(t), c.Min)))
		}
		if before && !after {
			obs.Fuses++
			rp.takenDown, rp.fusedDown, rp.failedSince, rp.consecOK, rp.eligOK = t, true, false, 0, 0
			if t-rp.lastRecovery <= 2*PingPeriod {
				rp.chain++
				obs.BadRecoveries++
				if rp.chain > obs.MaxChain {
					obs.MaxChain = rp.chain
				}
			} else {
				rp.chain = 0
			}
		}
	}
	oneRound := func(si int, rp *c27Rep, ok bool) {
		obs.Rounds++
		t := clock.Sec()
		rp.probeOK = ok
		before := rp.node.IsStatusUp()
		if err := s.TryRecover(rp.node, c.DownAfter, 0); err != nil {
			addFail(&c27Fail{Clause: "tryrecover-error", Detail: err.Error(), StepAt: si})
			return
		}
		after := rp.node.IsStatusUp()
		if ok {
			rp.consecOK++
			if masterUp {
				rp.eligOK++
			}
			rp.lastPass = t
		} else {
			rp.consecOK, rp.eligOK = 0, 0
			if !before {
				rp.failedSince = true
			}
		}
		fail := func(cl, det string) {
			addFail(&c27Fail{Clause: cl, Detail: det, Chain: rp.chain, Failed: rp.failedSince, StepAt: si, MDown: !masterUp, Sib: siblingDown(rp)})
		}
		switch {
		case !before && after: // recovery
			switch {
			case !ok:
				fail("up-without-successful-probe", fmt.Sprintf("t=%d", t))
			case rp.fusedDown && c.Policy == "hard" && t < rp.takenDown+c.Cool:
				fail("hard/up-before-cooldown", fmt.Sprintf("fused at %d, cool-down %d, marked up at %d", rp.takenDown, c.Cool, t))
			case rp.fusedDown && c.Policy == "hard" && t < rp.latestTrigger+c.Cool:
				// "the configured cool-down since its LATEST fuse": the breaker fired again while the node was down
				fail("hard/up-before-cooldown-of-latest-fuse", fmt.Sprintf("breaker took the node down at %d and fired again at %d while it was down, cool-down %d, marked up at %d", rp.takenDown, rp.latestTrigger, c.Cool, t))
			case rp.fusedDown && c.Policy == "gradual" && (rp.consecOK < c27Penalty(rp.chain) || rp.consecOK < 1):
				fail("gradual/up-before-penalty", fmt.Sprintf("marked up at t=%d after %d consecutive successful round(s) of its own; penalty in force %d (consecutive bad recoveries: %d; fused at %d, previous recovery at %d)", t, rp.consecOK, c27Penalty(rp.chain), rp.chain, rp.takenDown, rp.lastRecovery))
			}
			obs.Recoveries++
			rp.lastRecovery, rp.fusedDown, rp.failedSince = t, false, false
		case before && !after: // marked down by the probe round
			if t-rp.lastPass < int64(c.DownAfter) {
				fail("round-marked-down-without-cause", fmt.Sprintf("t=%d last passed probe at %d, down-after %d", t, rp.lastPass, c.DownAfter))
			}
			rp.fusedDown, rp.failedSince, rp.consecOK, rp.eligOK = false, false, 0, 0
		case !before && !after && ok && masterUp:
			// bounded progress is demanded with the master up only (C28: with the master down an
			// up-mark is permitted, not demanded)
			if c.Policy == "hard" && t >= rp.latestTrigger+c.Cool {
				fail("hard/not-up-after-cooldown", fmt.Sprintf("breaker last fired for this replica at %d, cool-down %d, successful round at %d left the node down", rp.latestTrigger, c.Cool, t))
			}
			if c.Policy == "gradual" && rp.eligOK >= c27Penalty(rp.chain)+1 {
				fail("gradual/not-up-after-penalty", fmt.Sprintf("%d consecutive successful rounds with the master up, penalty in force %d (chain %d), node still down at t=%d", rp.eligOK, c27Penalty(rp.chain), rp.chain, t))
			}
		}
	}

	for si, st := range c.Steps {
		rp := reps[0]
		if st.R > 0 && st.R < len(reps) {
			rp = reps[st.R]
		}
		switch st.Op {
		case "adv":
			clock.Advance(st.D)
		case "mdown":
			mnode.SetStatusDown()
			masterUp = false
		case "mup":
			mnode.SetStatusUp()
			masterUp = true
		case "err":
			oneError(si, rp)
		case "burst":
			for i := int64(0); i < c.Min; i++ {
				oneError(si, rp)
			}
		case "ok":
			for i := 0; i < st.N; i++ {
				clock.Advance(st.D)
				oneRound(si, rp, true)
			}
		case "fail":
			clock.Advance(st.D)
			oneRound(si, rp, false)
		}
	}
	return fails, obs
}

// c27BaseSig strips the context suffixes (master down, sibling down) of a signature.
func c27BaseSig(sig string) string {
	sig = strings.TrimSuffix(sig, "/sibling-down")
	return strings.TrimSuffix(sig, "/master-down")
}

func c27HasBase(fs []*c27Fail, base string) *c27Fail {
	for _, f := range fs {
		if c27BaseSig(f.Sig) == base {
			return f
		}
	}
	return nil
}

func c27Has(fs []*c27Fail, sig string) *c27Fail {
	for _, f := range fs {
		if f.Sig == sig {
			return f
		}
	}
	return nil
}

// c27Shrink removes steps greedily while the history still refutes the clause with signature sig.
func c27Shrink(c c27Case, sig string) c27Case {
	fails := func(x c27Case) bool { f, _ := c27Run(x); return c27HasBase(f, c27BaseSig(sig)) != nil }
	for changed := true; changed; {
		changed = false
		for i := 0; i < len(c.Steps); i++ {
			d := c
			d.Steps = append(append([]c27Step(nil), c.Steps[:i]...), c.Steps[i+1:]...)
			if fails(d) {
				c, changed = d, true
				break
			}
			if c.Steps[i].Op == "ok" && c.Steps[i].N > 1 {
				d = c
				d.Steps = append([]c27Step(nil), c.Steps...)
				d.Steps[i].N--
				if fails(d) {
					c, changed = d, true
					break
				}
			}
		}
	}
	return c
}

func c27Sig(c c27Case, f *c27Fail) string {
	chain := "0"
	if f.Chain > 0 {
		chain = ">0"
	}
	sig := c.Policy + ":" + f.Clause
	switch f.Clause {
	case "gradual/up-before-penalty", "gradual/not-up-after-penalty":
		sig = fmt.Sprintf("%s/chain%s/failedProbeSinceFuse=%v", f.Clause, chain, f.Failed)
	}
	if f.MDown {
		sig += "/master-down"
	}
	if f.Sib {
		sig += "/sibling-down"
	}
	return sig
}

func c27Key(c c27Case, o c27Obs) string {
	var sb strings.Builder
	fmt.Fprintf(&sb, "%s/W%d/m%d/c%d/d%d/%s/r%d:", c.Policy, c.W, c.Min, c.Cool, c.DownAfter, c.FailKind, c.Replicas)
	for _, s := range c.Steps {
		fmt.Fprintf(&sb, "%s%d.%d.%d,", s.Op[:2], s.N, s.D, s.R)
	}
	return sb.String()
}

func TestVerif_C27(t *testing.T) {
	hcSilenceLog()
	rec := kit.Start("C27", "exploration", "histories over {burst of min connection errors, single connection error, n successful probe rounds, failed probe round, clock advance in {0,1,cool-1,cool,2*ping,2*ping+1}} for the hard and the gradual policy, exhaustive up to the tier's length (one replica, master marked down/up as two more letters) and random up to 30 steps over 1-3 replicas of one group whose strategies come from the real InitFuseRecoveryPolicy; non-trivial = distinct histories in which the breaker took the node down and a later round restored it")
	defer rec.Finish(t)
	rec.Assume("the replication-lag check is off (seconds_behind_master=0) in every history: C28 covers it; the master is marked down/up by history steps, and bounded progress is demanded only in rounds with the master up")
	rec.Assume("the first error arrives more than two ping periods after the recovery policy object was created")
	rec.Assume("'consecutive successful probes' are counted in probe rounds (one TryRecover call per round), reset by a failed round and by the breaker taking the node down")
	defer VerifSetClock(nil)

	var total c27Obs
	runOne := func(c c27Case) {
		f, o := c27Run(c)
		rec.Eval(1)
		total.Rounds += o.Rounds
		total.Errors += o.Errors
		total.Fuses += o.Fuses
		total.Recoveries += o.Recoveries
		total.BadRecoveries += o.BadRecoveries
		if o.MaxChain > total.MaxChain {
			total.MaxChain = o.MaxChain
		}
		if o.Fuses > 0 && o.Recoveries > 0 {
			rec.Nontrivial(c27Key(c, o))
			if o.BadRecoveries > 0 {
				rec.Sample(map[string]interface{}{"case": c, "observed": o})
			}
		}
		for _, ff := range f {
			m, mf := c, ff
			if !rec.IsKnown(ff.Sig) {
				m = c27Shrink(c, ff.Sig)
				fs, _ := c27Run(m)
				if mf = c27HasBase(fs, c27BaseSig(ff.Sig)); mf == nil {
					m, mf = c, ff
				}
			}
			rec.Violation(mf.Sig, fmt.Sprintf("%s policy W=%d min=%d cool=%d downAfter=%d replicas=%d steps=%+v: %s: %s", m.Policy, m.W, m.Min, m.Cool, m.DownAfter, m.Replicas, m.Steps, mf.Clause, mf.Detail), m)
		}
	}

	if p := kit.ReplayPath(); p != "" {
		var c c27Case
		if err := kit.LoadReplay(p, &c); err != nil {
			t.Fatal(err)
		}
		runOne(c)
		return
	}

	alphabet := func(cool int64) []c27Step {
		a := []c27Step{{Op: "burst"}, {Op: "err"}, {Op: "ok", N: 1, D: 4}, {Op: "ok", N: 6, D: 4}, {Op: "ok", N: 7, D: 1}, {Op: "fail", D: 4}, {Op: "mdown"}, {Op: "mup"}}
		seen := map[int64]bool{}
		for _, d := range []int64{0, 1, cool - 1, cool, 2 * PingPeriod, 2*PingPeriod + 1} {
			if d >= 0 && !seen[d] {
				seen[d] = true
				a = append(a, c27Step{Op: "adv", D: d})
			}
		}
		return a
	}

	// (1) exhaustive short histories
	maxLen := kit.N(3, 5)
	var nEx int64
	for _, pol := range []string{"hard", "gradual"} {
		c := c27Case{Policy: pol, W: 4, Min: 2, Cool: 3, DownAfter: 1 << 30, FailKind: "ping"}
		al := alphabet(c.Cool)
		steps := make([]c27Step, maxLen)
		var walk func(pos int)
		walk = func(pos int) {
			if pos == maxLen {
				cc := c
				cc.Steps = append([]c27Step(nil), steps...)
				nEx++
				runOne(cc)
				return
			}
			for _, s := range al {
				steps[pos] = s
				walk(pos + 1)
			}
		}
		walk(0)
	}
	rec.Set("exhaustive_space", fmt.Sprintf("all histories of %d steps over the 14-letter alphabet (W=4,min=2,cool=3), both policies: %d histories (shorter ones are prefixes)", maxLen, nEx))

	// (1b) directed: the breaker fires again k seconds after the fuse while the node is still
	// down; successful rounds every second from then on (hard: cool-down counts from the latest
	// firing; gradual: same history, judged by its own clauses)
	for _, pol := range []string{"hard", "gradual"} {
		for _, cool := range []int64{2, 3, 8, 60} {
			for _, k := range []int64{1, cool - 1, cool, cool + 2} {
				if k < 1 {
					continue
				}
				for _, re := range []string{"burst", "err"} {
					for _, wm := range [][2]int64{{4, 2}, {8, 3}, {1, 1}} {
						runOne(c27Case{Policy: pol, W: wm[0], Min: wm[1], Cool: cool, DownAfter: 1 << 30, FailKind: "ping", Steps: []c27Step{
							{Op: "burst"}, {Op: "adv", D: k}, {Op: re}, {Op: "ok", N: int(cool + k + 3), D: 1}}})
					}
				}
			}
		}
	}

	// (1c) directed: two replicas of one group (strategies from the real InitFuseRecoveryPolicy)
	// fused with overlapping down periods; each replica is judged by its own history.
	for _, wm := range [][2]int64{{4, 2}, {8, 3}, {1, 1}} {
		for _, cool := range []int64{3, 8, 60} {
			for _, k := range []int64{1, cool - 1} {
				if k < 1 {
					continue
				}
				// hard: A fused at t0, B at t0+k; A's cool-down runs from A's own latest fuse
				runOne(c27Case{Policy: "hard", W: wm[0], Min: wm[1], Cool: cool, DownAfter: 1 << 30, FailKind: "ping", Replicas: 2, Steps: []c27Step{
					{Op: "burst", R: 0}, {Op: "adv", D: k}, {Op: "burst", R: 1}, {Op: "adv", D: cool - k}, {Op: "ok", N: 1, D: 0, R: 0}, {Op: "ok", N: int(k) + 1, D: 1, R: 1}}})
				// and with the master down in between (permitted up-mark must still respect the cool-down)
				runOne(c27Case{Policy: "hard", W: wm[0], Min: wm[1], Cool: cool, DownAfter: 1 << 30, FailKind: "ping", Replicas: 2, Steps: []c27Step{
					{Op: "burst", R: 0}, {Op: "mdown"}, {Op: "ok", N: 1, D: 0, R: 0}, {Op: "adv", D: k}, {Op: "ok", N: 1, D: 0, R: 0}, {Op: "mup"}, {Op: "adv", D: cool}, {Op: "ok", N: 1, D: 0, R: 0}}})
			}
		}
		// gradual: both fused, successful probes alternate between the siblings
		alt := []c27Step{{Op: "burst", R: 0}, {Op: "adv", D: 1}, {Op: "burst", R: 1}}
		for i := 0; i < 9; i++ {
			alt = append(alt, c27Step{Op: "ok", N: 1, D: 2, R: 0}, c27Step{Op: "ok", N: 1, D: 2, R: 1})
		}
		runOne(c27Case{Policy: "gradual", W: wm[0], Min: wm[1], DownAfter: 1 << 30, FailKind: "ping", Replicas: 2, Steps: alt})
		alt2 := []c27Step{{Op: "burst", R: 0}, {Op: "burst", R: 1}, {Op: "fail", D: 4, R: 1}}
		for i := 0; i < 9; i++ {
			alt2 = append(alt2, c27Step{Op: "ok", N: 1, D: 2, R: 1}, c27Step{Op: "ok", N: 1, D: 2, R: 0})
		}
		runOne(c27Case{Policy: "gradual", W: wm[0], Min: wm[1], DownAfter: 1 << 30, FailKind: "getcheck", Replicas: 3, Steps: alt2})
	}

	// (2) random histories up to 30 steps
	r := kit.SubRand(kit.Seed(), "C27/random")
	for i, n := 0, kit.N(12000, 300000); i < n; i++ {
		c := c27Case{Policy: []string{"hard", "gradual"}[r.Intn(2)], FailKind: []string{"ping", "getcheck"}[r.Intn(2)], DownAfter: 1 << 30}
		wm := [][2]int64{{4, 2}, {1, 1}, {8, 3}, {2, 4}}[r.Intn(4)]
		c.W, c.Min = wm[0], wm[1]
		c.Cool = []int64{1, 3, 8, 60}[r.Intn(4)]
		if r.Chance(1, 4) {
			c.DownAfter = 8
		}
		al := alphabet(c.Cool)
		okN := []int{1, 1, 2, 5, 6, 7, 10, 11, 15, 16, 17}
		c.Replicas = []int{1, 1, 2, 2, 3}[r.Intn(5)]
		for j, l := 0, r.Range(3, 30); j < l; j++ {
			s := al[r.Intn(len(al))]
			if (s.Op == "mdown" || s.Op == "mup") && r.Chance(1, 2) {
				s = c27Step{Op: "ok", N: 1, D: 4} // keep master marks rarer than probe rounds
			}
			s.R = r.Intn(c.Replicas)
			if s.Op == "ok" {
				s.N = okN[r.Intn(len(okN))]
				s.D = []int64{0, 1, 4, 4, 4}[r.Intn(5)]
			}
			if s.Op == "fail" {
				s.D = []int64{0, 1, 4}[r.Intn(3)]
			}
			// bias towards "recover, then fuse again soon": the chain of bad recoveries
			if s.Op == "adv" && r.Chance(1, 2) {
				s = c27Step{Op: "burst"}
			}
			c.Steps = append(c.Steps, s)
		}
		runOne(c)
	}

	rec.Count("probe_rounds", int64(total.Rounds))
	rec.Count("connection_errors", int64(total.Errors))
	rec.Count("breaker_took_node_down", int64(total.Fuses))
	rec.Count("recoveries", int64(total.Recoveries))
	rec.Count("bad_recoveries", int64(total.BadRecoveries))
	rec.Set("longest_chain_of_bad_recoveries", total.MaxChain)
	if total.Fuses == 0 || total.Recoveries == 0 {
		rec.Inconclusive("no fuse/recovery was observed")
	}
}
