package backend

// C24, part b — the property on the REAL backend.connectionPoolImpl / pooledConnectImpl
// (Get, Recycle, Put, Close, SetCapacity) over real DirectConnections to the loopback fake
// MySQL server. Same construction as the util part: client-boundary history, one-preemption
// enumeration through the util step points (util.VerifSetStep), exact blocked detection by
// goroutine dumps, a PRNG-perturbed stress part. Oracles: returning a connection obtained
// from the pool never panics and is never lost; no connection is handed to two holders, never
// more than MaxCap handed out; when no operation is in progress Available+InUse == Capacity
// and InUse == true holds; Close terminates once all holders returned and leaves
// InUse == Capacity == Available == Active == 0 with every connection closed.

import (
	"context"
	"encoding/json"
	"fmt"
	"runtime"
	"sort"
	"strings"
	"sync"
	"sync/atomic"
	"testing"
	"time"

	"github.com/XiaoMi/Gaea/mysql"
	"github.com/XiaoMi/Gaea/util"
	kit "github.com/XiaoMi/Gaea/verifkit"
	"github.com/XiaoMi/Gaea/verifkit/fakemysql"
	kitrp "github.com/XiaoMi/Gaea/verifkit/rp"
)

type c24bHold struct {
	Seq     int   `json:"seq"`
	Conn    int   `json:"conn"`
	G       int   `json:"g"`
	GetRet  int64 `json:"get_ret"`
	PutCall int64 `json:"put_call"`
	pc      PooledConnect
}

type c24bEv struct {
	G     int    `json:"g"`
	Op    string `json:"op"`
	Conn  int    `json:"conn,omitempty"`
	Call  int64  `json:"call"`
	Ret   int64  `json:"ret"`
	Err   string `json:"err,omitempty"`
	Panic string `json:"panic,omitempty"`
}

type c24bFinding struct {
	Clause string `json:"clause"`
	What   string `json:"what"`
}

type c24bWorld struct {
	cp    *connectionPoolImpl
	rp    *util.ResourcePool // captured before Close (Close forgets it)
	cap0  int
	max   int
	clock int64
	mu    sync.Mutex
	hist  []c24bEv
	ids   map[*pooledConnectImpl]int
	pcs   []*pooledConnectImpl
	holds []*c24bHold
	out   map[int]*c24bHold
	finds []c24bFinding
	seen  map[string]bool
	live  int32 // operation goroutines of this world that have not returned yet
}

func (w *c24bWorld) stamp() int64 { return atomic.AddInt64(&w.clock, 1) }

func (w *c24bWorld) add(clause, what string) {
	w.mu.Lock()
	if !w.seen[clause] {
		w.seen[clause] = true
		w.finds = append(w.finds, c24bFinding{clause, what})
	}
	w.mu.Unlock()
}

func c24bNewWorld(addr string, capacity, max int) (*c24bWorld, error) {
	cp := NewConnectionPool(addr, "u", "p", "db", capacity, max, 0, mysql.DefaultCharset, mysql.DefaultCollationID, 0, "", "dc", 30*time.Second).(*connectionPoolImpl)
	if err := cp.Open(); err != nil {
		return nil, err
	}
	return &c24bWorld{cp: cp, rp: cp.pool(), cap0: capacity, max: max, ids: map[*pooledConnectImpl]int{}, out: map[int]*c24bHold{}, seen: map[string]bool{}}, nil
}

func c24bPanic(p interface{}) string { return fmt.Sprint(p) }

func (w *c24bWorld) doGet(g int, ctx context.Context) *c24bHold {
	e := c24bEv{G: g, Op: "get"}
	var pc PooledConnect
	var err error
	e.Call = w.stamp()
	func() {
		defer func() {
			if p := recover(); p != nil {
				e.Panic = c24bPanic(p)
			}
		}()
		pc, err = w.cp.Get(ctx)
	}()
	e.Ret = w.stamp()
	w.mu.Lock()
	defer w.mu.Unlock()
	if e.Panic != "" || err != nil || pc == nil {
		if err != nil {
			e.Err = err.Error()
		}
		w.hist = append(w.hist, e)
		return nil
	}
	impl := pc.(*pooledConnectImpl)
	id, ok := w.ids[impl]
	if !ok {
		id = len(w.ids) + 1
		w.ids[impl] = id
		w.pcs = append(w.pcs, impl)
	}
	e.Conn = id
	h := &c24bHold{Seq: len(w.holds), Conn: id, G: g, GetRet: e.Ret, pc: pc}
	w.holds = append(w.holds, h)
	w.out[h.Seq] = h
	w.hist = append(w.hist, e)
	return h
}

// doRecycle returns a hold through pooledConnectImpl.Recycle; broken: the holder closed the
// connection first (Recycle then hands back an empty slot).
func (w *c24bWorld) doRecycle(g int, h *c24bHold, broken bool) {
	e := c24bEv{G: g, Op: "recycle", Conn: h.Conn}
	if broken {
		e.Op = "recycleClosed"
		h.pc.Close()
	}
	e.Call = w.stamp()
	w.mu.Lock()
	h.PutCall = e.Call
	delete(w.out, h.Seq)
	w.mu.Unlock()
	func() {
		defer func() {
			if p := recover(); p != nil {
				e.Panic = c24bPanic(p)
			}
		}()
		h.pc.Recycle()
	}()
	e.Ret = w.stamp()
	w.mu.Lock()
	w.hist = append(w.hist, e)
	w.mu.Unlock()
}

func (w *c24bWorld) doAdmin(g int, kind string, target int) {
	e := c24bEv{G: g, Op: kind}
	e.Call = w.stamp()
	func() {
		defer func() {
			if p := recover(); p != nil {
				e.Panic = c24bPanic(p)
			}
		}()
		switch kind {
		case "close":
			w.cp.Close()
		case "capUp", "capDown":
			if err := w.cp.SetCapacity(target); err != nil {
				e.Err = err.Error()
			}
		}
	}()
	e.Ret = w.stamp()
	w.mu.Lock()
	w.hist = append(w.hist, e)
	w.mu.Unlock()
}

func (w *c24bWorld) outstanding() []*c24bHold {
	w.mu.Lock()
	defer w.mu.Unlock()
	hs := make([]*c24bHold, 0, len(w.out))
	for _, h := range w.out {
		hs = append(hs, h)
	}
	sort.Slice(hs, func(i, j int) bool { return hs[i].Seq < hs[j].Seq })
	return hs
}

// barrier: only when no operation is in progress.
func (w *c24bWorld) barrier(where string) {
	p := w.rp
	w.mu.Lock()
	held := int64(len(w.out))
	w.mu.Unlock()
	av, in, cp, ac := p.Available(), p.InUse(), p.Capacity(), p.Active()
	st := fmt.Sprintf("at %s: available=%d inUse=%d held(truth)=%d capacity=%d active=%d max=%d", where, av, in, held, cp, ac, p.MaxCap())
	if av+in != cp || in != held {
		w.add("q.sum", "idle + in-use != capacity "+st)
	}
	if ac < 0 || ac > cp {
		w.add("q.active", "active outside [0,capacity] "+st)
	}
	if cp < 0 || cp > p.MaxCap() {
		w.add("q.cap", "capacity outside [0,max] "+st)
	}
}

func (w *c24bWorld) historyOracles(closed bool) {
	w.mu.Lock()
	hist := append([]c24bEv(nil), w.hist...)
	holds := make([]c24bHold, len(w.holds))
	for i, h := range w.holds {
		holds[i] = *h
	}
	pcs := append([]*pooledConnectImpl(nil), w.pcs...)
	w.mu.Unlock()
	for _, e := range hist {
		if e.Panic == "" {
			continue
		}
		if strings.HasPrefix(e.Op, "recycle") {
			w.add("put.panic", fmt.Sprintf("returning connection %d obtained from the pool panicked: %s", e.Conn, e.Panic))
		} else {
			w.add("panic."+e.Op, fmt.Sprintf("%s panicked: %s", e.Op, e.Panic))
		}
	}
	const inf = int64(1) << 62
	end := func(h c24bHold) int64 {
		if h.PutCall == 0 {
			return inf
		}
		return h.PutCall
	}
	by := map[int][]c24bHold{}
	type pt struct {
		t int64
		d int
	}
	var pts []pt
	for _, h := range holds {
		by[h.Conn] = append(by[h.Conn], h)
		pts = append(pts, pt{h.GetRet, 1}, pt{end(h), -1})
	}
	for id, hs := range by {
		sort.Slice(hs, func(i, j int) bool { return hs[i].GetRet < hs[j].GetRet })
		for i := 1; i < len(hs); i++ {
			if hs[i].GetRet < end(hs[i-1]) {
				w.add("double", fmt.Sprintf("connection %d held by g%d from stamp %d (returned at %d) and by g%d from stamp %d", id, hs[i-1].G, hs[i-1].GetRet, hs[i-1].PutCall, hs[i].G, hs[i].GetRet))
				break
			}
		}
	}
	sort.Slice(pts, func(i, j int) bool {
		if pts[i].t != pts[j].t {
			return pts[i].t < pts[j].t
		}
		return pts[i].d < pts[j].d
	})
	cur, peak := 0, 0
	for _, p := range pts {
		cur += p.d
		if cur > peak {
			peak = cur
		}
	}
	if peak > w.max {
		w.add("overmax", fmt.Sprintf("%d connections handed out simultaneously, max capacity %d", peak, w.max))
	}
	if closed {
		for _, pc := range pcs {
			if !pc.IsClosed() {
				w.add("lost", fmt.Sprintf("connection %d is still open after Close finished", w.ids[pc]))
			}
		}
	}
}

// ---------------------------------------------------------------------------------------
// scheduler

type c24bCase struct {
	Kind    string       `json:"kind"`
	Cap     int          `json:"cap"`
	Max     int          `json:"max"`
	Setup   string       `json:"setup,omitempty"`
	First   string       `json:"first,omitempty"`
	Point   string       `json:"point,omitempty"`
	Second  string       `json:"second,omitempty"`
	Tgt     string       `json:"tgt,omitempty"`
	Run     int          `json:"run,omitempty"`
	Workers int          `json:"workers,omitempty"`
	Ops     int          `json:"ops,omitempty"`
	Mix     string       `json:"mix,omitempty"`
	Hook    bool         `json:"hook,omitempty"`
	Obs     *c24bOutcome `json:"observed,omitempty"`
}

type c24bOutcome struct {
	Parked     bool          `json:"parked"`
	SecondDone bool          `json:"second_ran_to_completion"`
	Findings   []c24bFinding `json:"findings,omitempty"`
	History    []c24bEv      `json:"history,omitempty"`
	Steps      []string      `json:"steps,omitempty"`
}

var c24bOps = []string{"get", "recycle", "recycleClosed", "capUp", "capDown", "close"}

var c24bPoints = map[string][]string{
	"get":           {"-", "get.received", "get.beforeAccounting", "addCapacity.checked"},
	"recycle":       {"-", "put.beforeSend", "put.afterSend"},
	"recycleClosed": {"-", "put.beforeSend", "put.afterSend"},
	"capUp":         {"-", "scale.beforeCAS", "scale.afterCAS", "scale.growLoop", "scale.shrinkLoop"},
	"capDown":       {"-"},
	"close":         {"-", "scale.beforeCAS", "scale.afterCAS", "scale.shrinkLoop", "scale.beforeClose"},
}

var c24bSetups = []string{"warm", "exhausted", "full"}

type c24bCtl struct {
	mu         sync.Mutex
	armed      bool
	point      string
	parked     bool
	parkedGid  int64
	gate       chan struct{}
	holdOthers bool
	others     chan struct{}
	steps      []string
}

var c24bCur atomic.Value // *c24bCtl

func c24bSysStep(name string) {
	c, _ := c24bCur.Load().(*c24bCtl)
	if c == nil {
		return
	}
	c.mu.Lock()
	if len(c.steps) < 48 {
		c.steps = append(c.steps, name)
	}
	if c.armed && name == c.point {
		c.armed, c.parked, c.parkedGid = false, true, kitrp.Gid()
		g := c.gate
		c.mu.Unlock()
		<-g
		return
	}
	if c.holdOthers && kitrp.Gid() != c.parkedGid {
		g := c.others
		c.mu.Unlock()
		<-g
		return
	}
	c.mu.Unlock()
}

var c24bShards [64]struct {
	s uint64
	n int64
	_ [6]uint64
}
var c24bSeed, c24bSink uint64

func c24bStressStep(name string) {
	sh := &c24bShards[kitrp.Gid()&63]
	atomic.AddInt64(&sh.n, 1)
	z := atomic.AddUint64(&sh.s, 0x9E3779B97F4A7C15) ^ atomic.LoadUint64(&c24bSeed)
	z = (z ^ (z >> 30)) * 0xBF58476D1CE4E5B9
	z = (z ^ (z >> 27)) * 0x94D049BB133111EB
	z ^= z >> 31
	switch z % 16 {
	case 8, 9, 10, 11:
		runtime.Gosched()
	case 12, 13:
		for i := uint64(0); i < (z>>8)%40; i++ {
			runtime.Gosched()
		}
	case 14:
		time.Sleep(time.Duration((z>>16)%40) * time.Microsecond)
	case 15:
		var x uint64
		for i := uint64(0); i < (z>>20)%3000; i++ {
			x += i * z
		}
		atomic.AddUint64(&c24bSink, x)
	}
}

type c24bOp struct {
	kind   string
	done   int32
	cancel context.CancelFunc
}

func (o *c24bOp) isDone() bool { return o == nil || atomic.LoadInt32(&o.done) == 1 }

type c24bSys struct {
	self  int64
	addr  string
	q     *kitrp.Quiet
	incon string
}

const c24bWatchdog = 5 * time.Minute

func (s *c24bSys) quiet() {
	if s.incon == "" && !s.q.Wait(s.self, c24bWatchdog) {
		s.incon = "quiescence not reached within the watchdog"
	}
}

// c24bTarget runs on the operation's own goroutine: reading the configured capacity needs
// cp.mu, which a parked SetCapacity holds.
func c24bTarget(kind, tgt string, w *c24bWorld) int {
	w.cp.mu.RLock()
	base := w.cp.capacity
	w.cp.mu.RUnlock()
	if kind == "capUp" {
		if tgt == "near" && base+1 <= w.max {
			return base + 1
		}
		return w.max
	}
	if tgt == "near" && base-1 >= 1 {
		return base - 1
	}
	return 1
}

func (s *c24bSys) start(w *c24bWorld, c c24bCase, kind string, g int, h *c24bHold) *c24bOp {
	o := &c24bOp{kind: kind}
	ctx, cancel := context.WithCancel(context.Background())
	o.cancel = cancel
	atomic.AddInt32(&w.live, 1)
	go c24bRunOp(w, o, ctx, g, h, c.Tgt)
	return o
}

func c24bRunOp(w *c24bWorld, o *c24bOp, ctx context.Context, g int, h *c24bHold, tgt string) {
	defer atomic.AddInt32(&w.live, -1)
	defer atomic.StoreInt32(&o.done, 1)
	target := 0
	if o.kind == "capUp" || o.kind == "capDown" {
		target = c24bTarget(o.kind, tgt, w)
	}
	switch o.kind {
	case "get":
		w.doGet(g, ctx)
	case "recycle":
		w.doRecycle(g, h, false)
	case "recycleClosed":
		w.doRecycle(g, h, true)
	default:
		w.doAdmin(g, o.kind, target)
	}
}

func c24bNeeds(kind string) int {
	if strings.HasPrefix(kind, "recycle") {
		return 1
	}
	return 0
}

func (s *c24bSys) setup(w *c24bWorld, c c24bCase, need int) bool {
	ctx := context.Background()
	get := func() bool { return w.doGet(0, ctx) != nil }
	if need > w.max {
		return false
	}
	n := 0
	switch c.Setup {
	case "warm", "exhausted":
		n = w.cap0
	case "full":
		n = w.max
	}
	for i := 0; i < n; i++ {
		if !get() {
			return false
		}
	}
	if c.Setup == "warm" {
		for _, h := range w.outstanding() {
			w.doRecycle(0, h, false)
		}
	}
	for len(w.outstanding()) < need {
		if !get() {
			return false
		}
	}
	return true
}

// finish returns everything, closes the pool, checks the closed state and the history.
func (s *c24bSys) finish(w *c24bWorld, check bool, pending func() bool) {
	stuck := false
	for i := 0; i < 2 && !stuck; i++ {
		for _, h := range w.outstanding() {
			// on its own goroutine: a return that blocks must not take the monitor with it
			o := &c24bOp{kind: "recycle"}
			atomic.AddInt32(&w.live, 1)
			go c24bRunOp(w, o, nil, 0, h, "")
			s.quiet()
			if !o.isDone() {
				stuck = true
				if check && s.incon == "" {
					w.add("put.blocked", fmt.Sprintf("returning connection %d blocks forever (every goroutine of the pool is parked)", h.Conn))
				}
				break
			}
		}
	}
	if check && s.incon == "" && !stuck {
		if pending != nil && pending() {
			w.add("hang", "an operation never finished although every connection was returned and nothing else runs")
		} else {
			w.barrier("after drain")
		}
	}
	o := &c24bOp{kind: "close"}
	atomic.AddInt32(&w.live, 1)
	go c24bRunOp(w, o, nil, 9, nil, "")
	s.quiet()
	closed := o.isDone() && (pending == nil || !pending())
	if check && s.incon == "" {
		if !o.isDone() {
			w.add("hang", "final Close never finished although every connection was returned")
		} else if p := w.rp; p.Capacity() != 0 || p.InUse() != 0 || p.Available() != 0 || p.Active() != 0 {
			w.add("q.closed", fmt.Sprintf("after Close: capacity=%d inUse=%d available=%d active=%d", p.Capacity(), p.InUse(), p.Available(), p.Active()))
		}
		w.historyOracles(closed)
	}
	// After a recorded deadlock: feed the waiting shrink empty slots so that the parked
	// goroutines of this (already judged) world unwind instead of piling up in later dumps.
	for i := 0; i < 8 && s.incon == "" && atomic.LoadInt32(&w.live) > 0; i++ {
		func() {
			defer func() { recover() }()
			w.rp.Put(nil)
		}()
		s.quiet()
	}
}

func (s *c24bSys) runPair(c c24bCase) *c24bOutcome {
	w, err := c24bNewWorld(s.addr, c.Cap, c.Max)
	if err != nil {
		s.incon = "cannot open the pool: " + err.Error()
		return nil
	}
	c24bCur.Store((*c24bCtl)(nil))
	need := c24bNeeds(c.First) + c24bNeeds(c.Second)
	if !s.setup(w, c, need) {
		s.finish(w, false, nil)
		return nil
	}
	out := &c24bOutcome{}
	w.barrier("after setup")
	hs := w.outstanding()
	var hA, hB *c24bHold
	if c24bNeeds(c.First) == 1 {
		hA, hs = hs[0], hs[1:]
	}
	if c24bNeeds(c.Second) == 1 {
		hB = hs[0]
	}
	s.quiet()
	ctl := &c24bCtl{gate: make(chan struct{}), others: make(chan struct{})}
	if c.Point != "-" {
		ctl.armed, ctl.point = true, c.Point
	}
	c24bCur.Store(ctl)
	opA := s.start(w, c, c.First, 1, hA)
	s.quiet()
	var opB *c24bOp
	ctl.mu.Lock()
	out.Parked = ctl.parked
	ctl.armed = false
	ctl.mu.Unlock()
	if out.Parked {
		opB = s.start(w, c, c.Second, 2, hB)
		s.quiet()
		out.SecondDone = opB.isDone()
		if !out.SecondDone {
			ctl.mu.Lock()
			ctl.holdOthers = true
			ctl.mu.Unlock()
		}
		close(ctl.gate)
		s.quiet()
		ctl.mu.Lock()
		ctl.holdOthers = false
		ctl.mu.Unlock()
		close(ctl.others)
		s.quiet()
	} else if c.Point == "-" {
		opB = s.start(w, c, c.Second, 2, hB)
		s.quiet()
		out.SecondDone = opB.isDone()
	}
	pending := func() bool { return !opA.isDone() || !opB.isDone() }
	if !pending() && s.incon == "" {
		w.barrier("after the pair")
	}
	for _, o := range []*c24bOp{opA, opB} {
		if o != nil && !o.isDone() && o.kind == "get" {
			o.cancel()
		}
	}
	s.quiet()
	s.finish(w, true, pending)
	for _, o := range []*c24bOp{opA, opB} {
		if o != nil {
			o.cancel()
		}
	}
	c24bCur.Store((*c24bCtl)(nil))
	ctl.mu.Lock()
	out.Steps = append([]string(nil), ctl.steps...)
	ctl.mu.Unlock()
	w.mu.Lock()
	out.Findings = append([]c24bFinding(nil), w.finds...)
	out.History = append([]c24bEv(nil), w.hist...)
	w.mu.Unlock()
	return out
}

// runKeepalive: every idle connection is made older than the pool's ping period (white-box:
// returnTime moved back, nothing sleeps), the backend is left up ("pingOK"), has dropped the
// connections ("reconnectOK": ping fails, reconnect succeeds) or is down ("backendDown": ping
// and reconnect fail), then as many Gets as there are connections run one after the other.
// Whatever Get answers, the ledger must balance afterwards and Close must terminate.
func (s *c24bSys) runKeepalive(c c24bCase) *c24bOutcome {
	srv, err := fakemysql.Start()
	if err != nil {
		s.incon = "cannot start a fake MySQL server: " + err.Error()
		return nil
	}
	defer srv.Close()
	srv.SetLogging(true, true)
	w, err := c24bNewWorld(srv.Addr(), c.Cap, c.Max)
	if err != nil {
		s.incon = "cannot open the pool: " + err.Error()
		return nil
	}
	c24bCur.Store((*c24bCtl)(nil))
	out := &c24bOutcome{}
	ctx := context.Background()
	n := c.Cap
	if c.Setup == "full" {
		n = c.Max
	}
	for i := 0; i < n; i++ {
		if w.doGet(0, ctx) == nil {
			s.finish(w, false, nil)
			return nil
		}
	}
	for _, h := range w.outstanding() {
		w.doRecycle(0, h, false)
	}
	s.quiet()
	w.barrier("after setup")
	w.mu.Lock()
	for _, pc := range w.pcs {
		pc.returnTime = time.Now().Add(-time.Hour) // idle for longer than pingPeriod
	}
	w.mu.Unlock()
	switch c.First {
	case "reconnectOK":
		srv.KillAll()
	case "backendDown":
		srv.Close()
	}
	accepted0 := srv.Accepted()
	srv.TakeEvents()
	rounds := n
	if c.First == "backendDown" {
		rounds = n + 1 // one more Get: the slot is empty now and the factory fails too
	}
	got, failed := 0, 0
	var ops []*c24bOp
	for i := 0; i < rounds; i++ {
		before := len(w.outstanding())
		o := s.start(w, c, "get", 1+i, nil)
		ops = append(ops, o)
		s.quiet()
		if !o.isDone() {
			break
		}
		if len(w.outstanding()) > before {
			got++
		} else {
			failed++
		}
		if c.First == "backendDown" || c.Second == "returnEach" {
			for _, h := range w.outstanding() {
				w.doRecycle(0, h, false)
			}
			s.quiet()
		}
	}
	pings := 0
	for _, e := range srv.TakeEvents() {
		if e.Cmd == fakemysql.ComPing {
			pings++
		}
	}
	out.Parked = got+failed > 0
	out.SecondDone = true
	out.Steps = []string{fmt.Sprintf("gets_ok=%d gets_failed=%d pings_seen_by_server=%d reconnects=%d", got, failed, pings, srv.Accepted()-accepted0)}
	pending := func() bool {
		for _, o := range ops {
			if !o.isDone() {
				return true
			}
		}
		return false
	}
	if s.incon == "" {
		if pending() {
			w.add("hang", "a Get on an aged connection never returned")
		} else {
			w.barrier("after the keep-alive Gets")
		}
		// the path under test must really have been taken
		switch {
		case c.First == "pingOK" && (pings < n || got != n):
			w.add("keepalive.untested", out.Steps[0])
		case c.First == "reconnectOK" && (int(srv.Accepted()-accepted0) < n || got != n):
			w.add("keepalive.untested", out.Steps[0])
		case c.First == "backendDown" && got != 0:
			w.add("keepalive.untested", out.Steps[0])
		}
	}
	for _, o := range ops {
		o.cancel()
	}
	s.quiet()
	s.finish(w, true, pending)
	w.mu.Lock()
	out.Findings = append([]c24bFinding(nil), w.finds...)
	out.History = append([]c24bEv(nil), w.hist...)
	w.mu.Unlock()
	return out
}

func (s *c24bSys) runStress(c c24bCase) *c24bOutcome {
	w, err := c24bNewWorld(s.addr, c.Cap, c.Max)
	if err != nil {
		s.incon = "cannot open the pool: " + err.Error()
		return nil
	}
	c24bCur.Store((*c24bCtl)(nil))
	atomic.StoreUint64(&c24bSeed, kit.Seed()*1000003+uint64(c.Run))
	if c.Hook {
		util.VerifSetStep(c24bStressStep)
	} else {
		util.VerifSetStep(nil)
	}
	defer util.VerifSetStep(c24bSysStep)
	ctx, cancel := context.WithCancel(context.Background())
	defer cancel()
	var running int32
	spawn := func(fn func()) {
		atomic.AddInt32(&running, 1)
		atomic.AddInt32(&w.live, 1)
		go c24bStressGo(&running, &w.live, fn)
	}
	label := fmt.Sprintf("C24b/stress/%d", c.Run)
	for i := 0; i < c.Workers; i++ {
		g := i + 1
		r := kit.SubRand(kit.Seed(), fmt.Sprintf("%s/w%d", label, g))
		spawn(func() {
			for k := 0; k < c.Ops; k++ {
				h := w.doGet(g, ctx)
				if h == nil {
					if w.cp.pool() == nil || w.rp.IsClosed() {
						return
					}
					continue
				}
				for y := r.Intn(4); y > 0; y-- {
					runtime.Gosched()
				}
				w.doRecycle(g, h, r.Chance(1, 6))
			}
		})
	}
	if strings.Contains(c.Mix, "setcap") {
		r := kit.SubRand(kit.Seed(), label+"/setcap")
		spawn(func() {
			for k := 0; k < c.Ops; k++ {
				for y := r.Intn(12); y > 0; y-- {
					runtime.Gosched()
				}
				// SetCapacity(max) / SetCapacity(1): never a blocking shrink, which would
				// hold cp.mu and is explored by the systematic part only
				if r.Bool() {
					w.doAdmin(103, "capUp", w.max)
				} else {
					w.doAdmin(103, "capDown", 1)
				}
			}
		})
	}
	if strings.Contains(c.Mix, "close") {
		r := kit.SubRand(kit.Seed(), label+"/close")
		spawn(func() {
			for y := r.Intn(c.Ops * 30); y > 0; y-- {
				runtime.Gosched()
			}
			w.doAdmin(104, "close", 0)
		})
	}
	s.quiet()
	pending := func() bool { return atomic.LoadInt32(&running) != 0 }
	if s.incon == "" && pending() {
		w.add("hang", fmt.Sprintf("%d goroutine(s) blocked forever although every holder returns its connection", atomic.LoadInt32(&running)))
		cancel()
		s.quiet()
	}
	s.finish(w, true, pending)
	out := &c24bOutcome{}
	w.mu.Lock()
	out.Findings = append([]c24bFinding(nil), w.finds...)
	ev := append([]c24bEv(nil), w.hist...)
	if len(out.Findings) > 0 {
		n := len(ev)
		if n > 300 {
			n = 300
		}
		out.History = append([]c24bEv(nil), ev[len(ev)-n:]...)
	}
	w.mu.Unlock()
	sort.Slice(ev, func(i, j int) bool { return ev[i].Call < ev[j].Call })
	var sb strings.Builder
	overlaps, maxRet := 0, int64(0)
	for _, e := range ev {
		fmt.Fprintf(&sb, "%d%s,", e.G, e.Op[:1])
		if e.Call < maxRet {
			overlaps++
		}
		if e.Ret > maxRet {
			maxRet = e.Ret
		}
	}
	out.Parked = overlaps > 0
	out.Steps = []string{kit.Hash64(sb.String()), fmt.Sprint(len(ev)), fmt.Sprint(overlaps)}
	return out
}

func c24bStressGo(running, live *int32, fn func()) {
	defer atomic.AddInt32(live, -1)
	defer atomic.AddInt32(running, -1)
	fn()
}

func c24bReport(rec *kit.Rec, c c24bCase, out *c24bOutcome) {
	for _, fd := range out.Findings {
		cc := c
		cc.Obs = out
		sig := "b|" + fd.Clause + "|" + c.First + "|" + c.Point + "|" + c.Second
		if c.Kind == "stress" {
			sig = "b|" + fd.Clause + "|stress|" + c.Mix + "|-"
		}
		if c.Kind == "keepalive" {
			sig = "b|" + fd.Clause + "|keepalive|" + c.First + "|-"
		}
		rec.Violation(sig, fd.What, cc)
	}
}

func TestVerif_C24b(t *testing.T) {
	rec := kit.Start("C24", "exploration", "part b (real backend.connectionPoolImpl over the loopback fake MySQL server): every ordered pair of {Get, Recycle, Recycle of a closed connection, SetCapacity up, SetCapacity down, Close} x every util step point of the first x start state {warm, exhausted, full} x (capacity,max); first parked at the point, second runs until finished or provably blocked, release, drain, Close, oracles; non-trivial = the first really parked and the second ran; plus stress runs of 2..6 holders with Close / SetCapacity in flight; non-trivial = operations overlapped, distinct = interleaving fingerprint")
	defer rec.Finish(t)
	rec.Assume("part b: connections are real DirectConnections to verifkit/fakemysql on loopback; the factory fails only if the handshake does")
	rec.Assume("part b: the stress runs call SetCapacity(max) and SetCapacity(1) only (no blocking shrink through SetCapacity; that case is covered by the systematic part)")
	srv, err := fakemysql.Start()
	if err != nil {
		rec.Inconclusive("cannot start the fake MySQL server: " + err.Error())
		return
	}
	defer srv.Close()
	srv.SetLogging(false, false)
	util.VerifSetStep(c24bSysStep)
	defer util.VerifSetStep(nil)
	s := &c24bSys{self: kitrp.Gid(), addr: srv.Addr(), q: &kitrp.Quiet{Patterns: []string{"backend.c24b", "backend.(*c24b", "backend.(*connectionPoolImpl).", "backend.(*pooledConnectImpl).", "backend.(*DirectConnection).", "util.(*ResourcePool)."}}}

	if p := kit.ReplayPath(); p != "" {
		var c c24bCase
		if err := kit.LoadReplay(p, &c); err != nil || (c.Kind != "pair" && c.Kind != "stress" && c.Kind != "keepalive") || c.Max == 0 {
			rec.Eval(1)
			rec.Nontrivial("replay-of-other-part")
			rec.Nontrivial("replay-of-other-part2")
			rec.Sample("replay file belongs to another part")
			return
		}
		c.Obs = nil
		var out *c24bOutcome
		if c.Kind == "stress" {
			out = s.runStress(c)
		} else if c.Kind == "keepalive" {
			out = s.runKeepalive(c)
		} else {
			out = s.runPair(c)
		}
		rec.Eval(1)
		rec.Nontrivial("replay")
		rec.Nontrivial("replay2")
		if out != nil {
			cc := c
			cc.Obs = out
			rec.Sample(cc)
			c24bReport(rec, c, out)
		}
		if s.incon != "" {
			rec.Inconclusive(s.incon)
		}
		return
	}

	thorough := kit.Tier() == "thorough"
	type cm struct{ c, m int }
	caps := []cm{{1, 2}}
	tgts := []string{"far"}
	if thorough {
		caps = []cm{{1, 1}, {1, 2}, {1, 3}, {2, 3}}
		tgts = []string{"far", "near"}
	}
	sampled := 0
	for _, k := range caps {
		for _, su := range c24bSetups {
			for _, a := range c24bOps {
				for _, p := range c24bPoints[a] {
					for _, b := range c24bOps {
						for _, tg := range tgts {
							isCap := a == "capUp" || a == "capDown" || b == "capUp" || b == "capDown"
							if tg == "near" && !isCap {
								continue
							}
							c := c24bCase{Kind: "pair", Cap: k.c, Max: k.m, Setup: su, First: a, Point: p, Second: b, Tgt: tg}
							out := s.runPair(c)
							if s.incon != "" {
								bj, _ := json.Marshal(c)
								rec.Inconclusive(s.incon + " in " + string(bj))
								return
							}
							if out == nil {
								rec.Count("b.pairs.state_not_constructible", 1)
								continue
							}
							rec.Eval(1)
							switch {
							case p == "-":
								rec.Count("b.pairs.sequential", 1)
							case !out.Parked:
								rec.Count("b.pairs.point_not_reached", 1)
							case out.SecondDone:
								rec.Count("b.pairs.parked.second_completed", 1)
							default:
								rec.Count("b.pairs.parked.second_blocked(infeasible order)", 1)
							}
							for _, st := range out.Steps {
								rec.Count("b.step."+st, 1)
							}
							if out.Parked {
								key := fmt.Sprintf("b|%s@%s>%s|%s|%d/%d|%s|%v", a, p, b, su, k.c, k.m, tg, out.SecondDone)
								rec.Nontrivial(key)
								if sampled < 2 && out.SecondDone && kit.SubRand(kit.Seed(), "C24b/sample/"+key).Chance(1, 30) {
									sampled++
									cc := c
									cc.Obs = out
									rec.Sample(cc)
								}
							}
							if len(out.Findings) > 0 {
								rec.Count("b.pairs.with_violation", 1)
								c24bReport(rec, c, out)
							}
						}
					}
				}
			}
		}
	}
	// keep-alive family: aged idle connections x backend state
	kcaps := []cm{{1, 2}, {2, 3}}
	if thorough {
		kcaps = []cm{{1, 1}, {1, 2}, {1, 3}, {2, 2}, {2, 3}, {3, 4}}
	}
	for _, k := range kcaps {
		for _, su := range []string{"warm", "full"} {
			for _, v := range []string{"pingOK", "reconnectOK", "backendDown"} {
				for _, ret := range []string{"holdAll", "returnEach"} {
					c := c24bCase{Kind: "keepalive", Cap: k.c, Max: k.m, Setup: su, First: v, Second: ret}
					out := s.runKeepalive(c)
					if s.incon != "" {
						bj, _ := json.Marshal(c)
						rec.Inconclusive(s.incon + " in " + string(bj))
						return
					}
					if out == nil {
						continue
					}
					rec.Eval(1)
					rec.Count("b.keepalive."+v, 1)
					if out.Parked {
						rec.Nontrivial(fmt.Sprintf("b|keepalive|%s|%s|%s|%d/%d", v, su, ret, k.c, k.m))
					}
					if v == "backendDown" && k.c == 1 && su == "warm" && ret == "holdAll" {
						cc := c
						cc.Obs = out
						rec.Sample(cc)
					}
					if len(out.Findings) > 0 {
						c24bReport(rec, c, out)
					}
				}
			}
		}
	}
	runs := kit.N(30, 300)
	sr := kit.SubRand(kit.Seed(), "C24b/stress/plan")
	mixes := []string{"close", "setcap", "setcap+close", "plain"}
	for run := 0; run < runs; run++ {
		capN := sr.Range(1, 3)
		c := c24bCase{Kind: "stress", Cap: capN, Max: sr.Range(capN, 4), Run: run, Workers: sr.Range(2, 6), Ops: sr.Range(4, 20), Mix: mixes[run%len(mixes)], Hook: run%3 != 2}
		out := s.runStress(c)
		if s.incon != "" {
			bj, _ := json.Marshal(c)
			rec.Inconclusive(s.incon + " in " + string(bj))
			return
		}
		if out == nil {
			continue
		}
		rec.Eval(1)
		rec.Count("b.stress.runs", 1)
		if out.Parked {
			rec.Nontrivial("b|stress|" + c.Mix + "|" + out.Steps[0])
		}
		if run == 0 {
			cc := c
			cc.Obs = &c24bOutcome{Parked: out.Parked, Steps: out.Steps}
			rec.Sample(cc)
		}
		if len(out.Findings) > 0 {
			c24bReport(rec, c, out)
		}
	}
	var tot int64
	for i := range c24bShards {
		tot += atomic.LoadInt64(&c24bShards[i].n)
	}
	rec.Count("b.step.stress.total", tot)
	rec.Count("b.server.accepted_connections", srv.Accepted())
	rec.Set("b.goroutine_dumps", s.q.Dumps)
}
