package backend

// C25 — replica selection follows weights, health and locality.
//
// Monitor: the real balancer.next and the real Slice.GetSlaveConn (fake pools, so the pool
// that hands out the connection identifies the node that was selected) are driven over
// generated replica lists; the oracle is the property statement itself:
//   * all replicas up: EVERY window of W = sum(w_i)/gcd consecutive selections contains
//     node i exactly w_i/gcd times, a weight-0 node never;
//   * a node marked down is never selected while it is down; when an eligible node is up a
//     selection is made;
//   * forced-local never returns a remote node; preferred-local returns a remote node only
//     when no local node can serve;
//   * G goroutines drawing k*W selections in total get exactly k*w_i/gcd each (-race);
//   * white-box: nextIndex is started at 2^32-W-3 so that the run crosses the uint32 wrap.
// A last part selects replicas while another goroutine marks a node down/up the way the
// health checker does; the Go race detector is the oracle for that part (runner, -race).

import (
	"fmt"
	"sort"
	"strings"
	"sync"
	"sync/atomic"
	"testing"

	"github.com/XiaoMi/Gaea/util"
	kit "github.com/XiaoMi/Gaea/verifkit"
)

const (
	c25LocalDC  = "dc-local"
	c25RemoteDC = "dc-remote"
)

type c25Case struct {
	Part     string `json:"part"` // next | slaveconn | getconn | conc-next | conc-slaveconn | status-race
	Weights  []int  `json:"weights"`
	Local    []bool `json:"local,omitempty"`
	Up       []bool `json:"up,omitempty"`
	Policy   int    `json:"policy"`
	NearWrap bool   `json:"near_wrap"`
	G        int    `json:"goroutines,omitempty"`
	K        int    `json:"rounds,omitempty"`
	// part getconn: the entry point Slice.GetConn(reqCtx{FromSlave}, userType, policy)
	UserType int       `json:"user_type,omitempty"` // 0 normal, 1 statistic, 2 monitor
	Fallback string    `json:"fallback,omitempty"`  // fallback_to_master_on_slave_fail: on | off
	Groups   []c25Case `json:"groups,omitempty"`    // replica lists of Slave, StatisticSlave, MonitorSlave
}

type c25Result struct {
	Clause string `json:"clause"` // "" = held
	Detail string `json:"detail"`
	Wrap   bool   `json:"window_straddles_wrap"`
	Picks  []int  `json:"picks,omitempty"`
}

// c25Norm returns w_i/gcd for every node (0 for weight-0 nodes of the class) and their sum.
func c25Norm(weights []int, in []bool) (exp []int, total int) {
	g := 0
	for i, w := range weights {
		if w > 0 && (in == nil || in[i]) {
			g = hcGCD(g, w)
		}
	}
	exp = make([]int, len(weights))
	if g == 0 {
		return exp, 0
	}
	for i, w := range weights {
		if w > 0 && (in == nil || in[i]) {
			exp[i] = w / g
			total += w / g
		}
	}
	return exp, total
}

// c25Windows checks every window of length w of picks against exp; returns the first
// failing window start or -1.
func c25Windows(picks []int, exp []int, w int) int {
	if w <= 0 || len(picks) < w {
		return -1
	}
	cnt := make([]int, len(exp))
	bad := 0 // number of nodes whose count differs from exp
	for i := range exp {
		if exp[i] != 0 {
			bad++
		}
	}
	add := func(n, d int) {
		if n < 0 || n >= len(cnt) {
			return
		}
		was := cnt[n] == exp[n]
		cnt[n] += d
		is := cnt[n] == exp[n]
		if was && !is {
			bad++
		} else if !was && is {
			bad--
		}
	}
	for i, p := range picks {
		add(p, 1)
		if i >= w {
			add(picks[i-w], -1)
		}
		if i >= w-1 && bad != 0 {
			return i - w + 1
		}
	}
	return -1
}

func c25WrapStart(qlen int) uint32 {
	return uint32(uint64(1)<<32 - uint64(qlen) - 3)
}

// straddles says whether the window of draws [pos,pos+w) contains draws on both sides of
// the point where the counter (started at start, incremented before use) becomes 0.
func c25Straddles(start uint32, pos, w int) bool {
	if start == 0 {
		return false
	}
	jw := int64(uint64(1)<<32 - 1 - uint64(start)) // index of the draw whose counter value is 0
	return int64(pos) < jw && jw < int64(pos+w)
}

func c25RunNext(c c25Case) c25Result {
	var idx, ws []int
	for i, w := range c.Weights {
		if w > 0 {
			idx = append(idx, i)
			ws = append(ws, w)
		}
	}
	b, err := newBalancer(idx, ws)
	if len(idx) == 0 {
		if b != nil {
			if _, e := b.next(); e == nil {
				return c25Result{Clause: "zero-weight-picked", Detail: "balancer without candidates returned a node"}
			}
		}
		return c25Result{}
	}
	if err != nil || b == nil {
		return c25Result{Clause: "no-pick-while-eligible-up", Detail: fmt.Sprintf("newBalancer: %v", err)}
	}
	exp, w := c25Norm(c.Weights, nil)
	var start uint32
	if c.NearWrap && len(b.roundRobinQ) > 1 {
		start = c25WrapStart(w)
		atomic.StoreUint32(&b.nextIndex, start)
	}
	d := 3*w + 8
	picks := make([]int, 0, d)
	for j := 0; j < d; j++ {
		n, e := b.next()
		if e != nil {
			return c25Result{Clause: "no-pick-while-eligible-up", Detail: e.Error(), Picks: picks}
		}
		if n < 0 || n >= len(c.Weights) || c.Weights[n] == 0 {
			return c25Result{Clause: "zero-weight-picked", Detail: fmt.Sprintf("draw %d returned node %d", j, n), Picks: append(picks, n)}
		}
		picks = append(picks, n)
	}
	if pos := c25Windows(picks, exp, w); pos >= 0 {
		return c25Result{Clause: "window", Wrap: c25Straddles(start, pos, w), Picks: picks,
			Detail: fmt.Sprintf("window of %d draws starting at draw %d = %v, expected counts per node %v (counter started at %d)", w, pos, picks[pos:pos+w], exp, start)}
	}
	return c25Result{Picks: picks}
}

type c25World struct {
	s     *Slice
	d     *DBInfo
	pools []*hcPool
}

func c25Build(c c25Case) (*c25World, error) {
	w := &c25World{s: &Slice{Namespace: "c25"}, d: &DBInfo{}}
	for i, wt := range c.Weights {
		dc := c25RemoteDC
		if c.Local[i] {
			dc = c25LocalDC
		}
		n, p := hcNode(i, wt, dc, c.Up[i], nil)
		w.d.Nodes = append(w.d.Nodes, n)
		w.pools = append(w.pools, p)
	}
	if err := w.d.InitBalancers(c25LocalDC); err != nil {
		return nil, err
	}
	return w, nil
}

// counters reads the three selection counters (white-box).
func (w *c25World) counters() [3]uint32 {
	var out [3]uint32
	for i, b := range []*balancer{w.d.LocalBalancer, w.d.RemoteBalancer, w.d.GlobalBalancer} {
		if b != nil {
			out[i] = atomic.LoadUint32(&b.nextIndex)
		}
	}
	return out
}

// pickW is pick plus the white-box observation whether a selection counter passed from
// 2^32-1 to 0 during this selection (only meaningful without concurrent selections).
func (w *c25World) pickW(policy int) (n int, err error, wrapped bool) {
	before := w.counters()
	n, err = w.pick(policy)
	after := w.counters()
	for i := range before {
		if after[i] < before[i] {
			wrapped = true
		}
	}
	return
}

// pick performs one real selection and returns the node index (-1 on error).
func (w *c25World) pick(policy int) (int, error) {
	pc, err := w.s.GetSlaveConn(w.d, policy)
	if err != nil {
		return -1, err
	}
	hc, ok := pc.(*hcConn)
	if !ok || hc == nil || hc.pool == nil {
		return -2, fmt.Errorf("connection of unknown origin %T", pc)
	}
	return hc.pool.id, nil
}

// c25Class computes, from the statement, who may be selected in the current up/down state.
func c25Class(c c25Case, up []bool) (may []bool, anyMay bool, localServes bool) {
	may = make([]bool, len(c.Weights))
	for i, w := range c.Weights {
		if w > 0 && up[i] && c.Local[i] {
			localServes = true
		}
	}
	for i, w := range c.Weights {
		if w <= 0 || !up[i] {
			continue
		}
		switch c.Policy {
		case LocalSlaveReadForce:
			may[i] = c.Local[i]
		case LocalSlaveReadPrefer:
			may[i] = c.Local[i] || !localServes
		default:
			may[i] = true
		}
		anyMay = anyMay || may[i]
	}
	return
}

func c25CheckPick(c c25Case, up []bool, n int, err error) (clause, detail string) {
	may, anyMay, localServes := c25Class(c, up)
	if err != nil {
		if n == -2 {
			return "foreign-connection", err.Error()
		}
		if anyMay {
			return "no-pick-while-eligible-up", err.Error()
		}
		return "", ""
	}
	if n < 0 || n >= len(c.Weights) {
		return "foreign-connection", fmt.Sprintf("node %d", n)
	}
	switch {
	case c.Weights[n] <= 0:
		return "zero-weight-picked", fmt.Sprintf("node %d has weight %d", n, c.Weights[n])
	case !up[n]:
		return "down-picked", fmt.Sprintf("node %d is marked down", n)
	case c.Policy == LocalSlaveReadForce && !c.Local[n]:
		return "force-remote", fmt.Sprintf("node %d is remote", n)
	case c.Policy == LocalSlaveReadPrefer && !c.Local[n] && localServes:
		return "prefer-remote-while-local-up", fmt.Sprintf("node %d is remote although a local node is up", n)
	case !may[n]:
		return "ineligible-picked", fmt.Sprintf("node %d", n)
	}
	return "", ""
}

func c25AllUp(up []bool) bool {
	for _, u := range up {
		if !u {
			return false
		}
	}
	return true
}

func c25RunSlaveConn(c c25Case) c25Result {
	w, err := c25Build(c)
	if err != nil {
		return c25Result{Clause: "init-balancers-failed", Detail: err.Error()}
	}
	_, wg := c25Norm(c.Weights, nil)
	allUp := c25AllUp(c.Up)
	// which balancer serves when everything is up (for the window clause)
	var class []bool
	var bal *balancer
	if allUp {
		may, _, _ := c25Class(c, c.Up)
		class = may
		switch {
		case c.Policy == LocalSlaveReadForce:
			bal = w.d.LocalBalancer
		case c.Policy == LocalSlaveReadPrefer:
			bal = w.d.LocalBalancer
			if _, _, ls := c25Class(c, c.Up); !ls {
				bal = w.d.RemoteBalancer
			}
		default:
			bal = w.d.GlobalBalancer
		}
	}
	var start uint32
	if c.NearWrap {
		for _, b := range []*balancer{w.d.LocalBalancer, w.d.RemoteBalancer, w.d.GlobalBalancer} {
			if b != nil && len(b.roundRobinQ) > 1 {
				st := c25WrapStart(len(b.roundRobinQ))
				atomic.StoreUint32(&b.nextIndex, st)
				if b == bal {
					start = st
				}
			}
		}
	}
	d := 3*wg + 8
	picks := make([]int, 0, d)
	for j := 0; j < d; j++ {
		n, e, wrapped := w.pickW(c.Policy)
		picks = append(picks, n)
		if cl, det := c25CheckPick(c, c.Up, n, e); cl != "" {
			return c25Result{Clause: cl, Wrap: wrapped, Detail: fmt.Sprintf("selection %d: %s (selection counter wrapped during this selection: %v)", j, det, wrapped), Picks: picks}
		}
	}
	if allUp {
		exp, wc := c25Norm(c.Weights, class)
		if wc > 0 {
			if pos := c25Windows(picks, exp, wc); pos >= 0 {
				return c25Result{Clause: "window", Wrap: c25Straddles(start, pos, wc), Picks: picks,
					Detail: fmt.Sprintf("window of %d selections starting at selection %d = %v, expected counts per node %v (counter started at %d)", wc, pos, picks[pos:pos+wc], exp, start)}
			}
		}
	}
	return c25Result{Picks: picks}
}

// c25RunConc: G goroutines draw K*W selections in total, all nodes up.
func c25RunConc(c c25Case) c25Result {
	for i := range c.Up {
		c.Up[i] = true
	}
	counts := make([]int64, len(c.Weights)+1) // last = errors/foreign
	var exp []int
	var wc int
	var draw func() int
	if c.Part == "conc-next" {
		var idx, ws []int
		for i, w := range c.Weights {
			if w > 0 {
				idx = append(idx, i)
				ws = append(ws, w)
			}
		}
		b, err := newBalancer(idx, ws)
		if err != nil || b == nil {
			return c25Result{}
		}
		exp, wc = c25Norm(c.Weights, nil)
		draw = func() int {
			n, e := b.next()
			if e != nil {
				return -1
			}
			return n
		}
	} else {
		w, err := c25Build(c)
		if err != nil {
			return c25Result{Clause: "init-balancers-failed", Detail: err.Error()}
		}
		may, anyMay, _ := c25Class(c, c.Up)
		if !anyMay {
			return c25Result{}
		}
		exp, wc = c25Norm(c.Weights, may)
		draw = func() int { n, _ := w.pick(c.Policy); return n }
	}
	if wc == 0 {
		return c25Result{}
	}
	per := (c.K / c.G) * wc
	var wgp sync.WaitGroup
	startC := make(chan struct{})
	for g := 0; g < c.G; g++ {
		wgp.Add(1)
		go func() {
			defer wgp.Done()
			<-startC
			for j := 0; j < per; j++ {
				n := draw()
				if n < 0 || n >= len(c.Weights) {
					n = len(c.Weights)
				}
				atomic.AddInt64(&counts[n], 1)
			}
		}()
	}
	close(startC)
	wgp.Wait()
	rounds := int64((c.K / c.G) * c.G)
	for i := range c.Weights {
		if counts[i] != rounds*int64(exp[i]) {
			return c25Result{Clause: "concurrent-multiset", Detail: fmt.Sprintf("counts %v after %d goroutines x %d draws, expected %d x %v", counts, c.G, per, rounds, exp)}
		}
	}
	if counts[len(c.Weights)] != 0 {
		return c25Result{Clause: "no-pick-while-eligible-up", Detail: fmt.Sprintf("%d failed selections under concurrency", counts[len(c.Weights)])}
	}
	return c25Result{}
}

// c25RunStatusRace: readers select while one local node is marked down/up concurrently,
// as the health checker / breaker do. Another local node with weight stays up, so every
// statement clause that does not depend on the toggled node is still checkable; the race
// detector judges the status accesses.
func c25RunStatusRace(c c25Case, flips int, draws int) (c25Result, int64) {
	for i := range c.Up {
		c.Up[i] = true
	}
	w, err := c25Build(c)
	if err != nil {
		return c25Result{Clause: "init-balancers-failed", Detail: err.Error()}, 0
	}
	toggled := 0 // node 0 is local, weighted; node 1 is local, weighted and stays up (generator)
	var bad atomic.Value
	var picked int64
	var wgp sync.WaitGroup
	stop := make(chan struct{})
	for g := 0; g < c.G; g++ {
		wgp.Add(1)
		go func() {
			defer wgp.Done()
			for j := 0; j < draws; j++ {
				n, e := w.pick(c.Policy)
				if e != nil {
					bad.Store(fmt.Sprintf("no-pick-while-eligible-up|%v", e))
					return
				}
				atomic.AddInt64(&picked, 1)
				switch {
				case n < 0 || n >= len(c.Weights):
					bad.Store(fmt.Sprintf("foreign-connection|node %d", n))
				case c.Weights[n] <= 0:
					bad.Store(fmt.Sprintf("zero-weight-picked|node %d", n))
				case c.Policy == LocalSlaveReadForce && !c.Local[n]:
					bad.Store(fmt.Sprintf("force-remote|node %d", n))
				case c.Policy == LocalSlaveReadPrefer && !c.Local[n]:
					bad.Store(fmt.Sprintf("prefer-remote-while-local-up|node %d", n))
				}
			}
		}()
	}
	wgp.Add(1)
	go func() {
		defer wgp.Done()
		node := w.d.Nodes[toggled]
		for i := 0; i < flips; i++ {
			select {
			case <-stop:
				return
			default:
			}
			node.SetStatusDown()
			node.SetStatusUp()
		}
	}()
	wgp.Wait()
	close(stop)
	if v := bad.Load(); v != nil {
		parts := strings.SplitN(v.(string), "|", 2)
		return c25Result{Clause: parts[0], Detail: parts[1]}, picked
	}
	return c25Result{}, picked
}

// ---------------------------------------------------------------------------------------
// part getconn: selection through the real entry point Slice.GetConn for every user type.
// Pool ids: group g (0 Slave, 1 StatisticSlave, 2 MonitorSlave) node i -> g*100+i;
// master 1000, monitor master 1001.

const (
	c25MasterID    = 1000
	c25MonMasterID = 1001
)

func c25RunGetConn(c c25Case) c25Result {
	if len(c.Groups) != 3 {
		return c25Result{Clause: "harness/bad-case"}
	}
	s := &Slice{Namespace: "c25", FallbackToMasterOnSlaveFail: c.Fallback}
	mk := func(g int, gc c25Case) (*DBInfo, error) {
		d := &DBInfo{Nodes: []*NodeInfo{}}
		for i, wt := range gc.Weights {
			dc := c25RemoteDC
			if gc.Local[i] {
				dc = c25LocalDC
			}
			n, _ := hcNode(g*100+i, wt, dc, gc.Up[i], nil)
			d.Nodes = append(d.Nodes, n)
		}
		return d, d.InitBalancers(c25LocalDC)
	}
	var err error
	if s.Slave, err = mk(0, c.Groups[0]); err == nil {
		if s.StatisticSlave, err = mk(1, c.Groups[1]); err == nil {
			s.MonitorSlave, err = mk(2, c.Groups[2])
		}
	}
	if err != nil {
		return c25Result{Clause: "init-balancers-failed", Detail: err.Error()}
	}
	mn, _ := hcNode(c25MasterID, 1, c25LocalDC, true, nil)
	mm, _ := hcNode(c25MonMasterID, 1, c25LocalDC, true, nil)
	s.Master = &DBInfo{Nodes: []*NodeInfo{mn}}
	s.MonitorMaster = &DBInfo{Nodes: []*NodeInfo{mm}}

	// what the statement lets this user see
	target := map[int]int{0: 0, 1: 1, 2: 2}[c.UserType]
	gc := c.Groups[target]
	gc.Policy = c.Policy
	masterID := -1 // master connection allowed as a fallback only
	if s.ShouldFallbackToMasterOnSlaveFail() {
		switch c.UserType {
		case 0:
			masterID = c25MasterID
		case 2:
			masterID = c25MonMasterID
		}
	}
	reqCtx := util.NewRequestContext()
	reqCtx.SetFromSlave(true)

	_, wg := c25Norm(gc.Weights, nil)
	d := 3*wg + 8
	picks := make([]int, 0, d)
	local := make([]int, 0, d) // index inside the target group, -1 for refusal / fallback
	for j := 0; j < d; j++ {
		pc, e := s.GetConn(reqCtx, c.UserType, c.Policy)
		id := -1
		if e == nil {
			if hc, ok := pc.(*hcConn); ok && hc != nil && hc.pool != nil {
				id = hc.pool.id
			} else {
				return c25Result{Clause: "foreign-connection", Detail: fmt.Sprintf("selection %d: %T", j, pc), Picks: picks}
			}
		}
		picks = append(picks, id)
		_, anyMay, _ := c25Class(gc, gc.Up)
		switch {
		case e != nil || id == masterID:
			// refusal, or fallback to the master: only when no replica of the group may serve
			if anyMay {
				what := "refused"
				if e == nil {
					what = "fell back to the master"
				} else {
					what += ": " + e.Error()
				}
				return c25Result{Clause: "no-pick-while-eligible-up", Detail: fmt.Sprintf("selection %d %s", j, what), Picks: picks}
			}
			local = append(local, -1)
		case id/100 != target || id%100 >= len(gc.Weights):
			return c25Result{Clause: "wrong-group-picked", Detail: fmt.Sprintf("selection %d for user type %d returned pool %d (expected a replica of group %d)", j, c.UserType, id, target), Picks: picks}
		default:
			n := id % 100
			local = append(local, n)
			if cl, det := c25CheckPick(gc, gc.Up, n, nil); cl != "" {
				return c25Result{Clause: cl, Detail: fmt.Sprintf("selection %d: %s", j, det), Picks: picks}
			}
		}
	}
	if c25AllUp(gc.Up) {
		may, _, _ := c25Class(gc, gc.Up)
		exp, wc := c25Norm(gc.Weights, may)
		if wc > 0 {
			if pos := c25Windows(local, exp, wc); pos >= 0 {
				return c25Result{Clause: "window", Picks: picks,
					Detail: fmt.Sprintf("window of %d selections starting at selection %d = %v (pool ids), expected counts per node of group %d: %v", wc, pos, picks[pos:pos+wc], target, exp)}
			}
		}
	}
	return c25Result{Picks: picks}
}

func c25Key(c c25Case) string {
	var sb strings.Builder
	fmt.Fprintf(&sb, "%s/p%d/w%v", c.Part, c.Policy, c.NearWrap)
	if c.Part == "getconn" {
		fmt.Fprintf(&sb, "/u%d/f%s", c.UserType, c.Fallback)
		for _, g := range c.Groups {
			g.Part = "g"
			sb.WriteString("|" + c25Key(g))
		}
		return sb.String()
	}
	for i, w := range c.Weights {
		l, u := "r", "d"
		if c.Local != nil && c.Local[i] {
			l = "l"
		}
		if c.Up == nil || c.Up[i] {
			u = "u"
		}
		fmt.Fprintf(&sb, ",%d%s%s", w, l, u)
	}
	return sb.String()
}

func c25Sig(c c25Case, r c25Result) string {
	part := c.Part
	if c.Part == "getconn" {
		return fmt.Sprintf("getconn/%s/user%d/policy%d", r.Clause, c.UserType, c.Policy)
	}
	if r.Clause == "window" {
		if r.Wrap {
			return part + "/window/across-uint32-wrap"
		}
		return part + "/window/plain"
	}
	if c.Part == "slaveconn" || c.Part == "status-race" || c.Part == "conc-slaveconn" {
		if r.Wrap {
			return fmt.Sprintf("%s/%s/policy%d/across-uint32-wrap", part, r.Clause, c.Policy)
		}
		return fmt.Sprintf("%s/%s/policy%d", part, r.Clause, c.Policy)
	}
	return part + "/" + r.Clause
}

func TestVerif_C25(t *testing.T) {
	hcSilenceLog()
	rec := kit.Start("C25", "exploration", "replica lists (weights 0..8, dc tag, up/down, policy) -> real balancer.next / Slice.GetSlaveConn with fake pools; exhaustive weight vectors of length <=4 for next (plain and started 3 draws before the uint32 wrap), sampled lists of length <=6 for GetSlaveConn; non-trivial = distinct (part, policy, wrap, per-node weight/dc/status) with >=2 weighted nodes or a down/remote/zero-weight node")
	defer rec.Finish(t)
	rec.Assume("the node that served a selection is identified by the fake pool that handed out the connection")
	rec.Assume("down/up marks used in the sequential parts are set before the selections start and do not change during them")

	report := func(c c25Case, r c25Result) {
		if r.Clause == "" {
			return
		}
		if c.Part == "getconn" {
			g := c.Groups[c.UserType]
			rec.Violation(c25Sig(c, r), fmt.Sprintf("Slice.GetConn(fromSlave, userType=%d, policy=%d) fallback=%s, group of this user: weights=%v local=%v up=%v: %s: %s", c.UserType, c.Policy, c.Fallback, g.Weights, g.Local, g.Up, r.Clause, r.Detail), c)
			return
		}
		rec.Violation(c25Sig(c, r), fmt.Sprintf("%s weights=%v local=%v up=%v policy=%d nearWrap=%v: %s: %s", c.Part, c.Weights, c.Local, c.Up, c.Policy, c.NearWrap, r.Clause, r.Detail), c)
	}
	nontrivial := func(c c25Case) {
		weighted, special := 0, false
		for i, w := range c.Weights {
			if w > 0 {
				weighted++
			} else {
				special = true
			}
			if c.Up != nil && !c.Up[i] {
				special = true
			}
			if c.Local != nil && !c.Local[i] {
				special = true
			}
		}
		if weighted >= 2 || special || c.Part == "getconn" {
			rec.Nontrivial(c25Key(c))
		}
	}
	runOne := func(c c25Case) {
		var r c25Result
		switch c.Part {
		case "next":
			r = c25RunNext(c)
			rec.Count("next.draws", int64(len(r.Picks)))
		case "slaveconn":
			r = c25RunSlaveConn(c)
			rec.Count("slaveconn.selections", int64(len(r.Picks)))
			for _, p := range r.Picks {
				if p < 0 {
					rec.Count("slaveconn.refused", 1)
				}
			}
		case "conc-next", "conc-slaveconn":
			r = c25RunConc(c)
			rec.Count("concurrent.cases", 1)
		case "getconn":
			r = c25RunGetConn(c)
			rec.Count("getconn.selections", int64(len(r.Picks)))
			rec.Count(fmt.Sprintf("getconn.cases.user%d", c.UserType), 1)
		case "status-race":
			var picked int64
			r, picked = c25RunStatusRace(c, kit.N(4000, 40000), kit.N(1500, 10000))
			rec.Count("statusrace.selections", picked)
		}
		rec.Eval(1)
		nontrivial(c)
		if c.NearWrap {
			rec.Count("cases.started_before_uint32_wrap", 1)
		}
		report(c, r)
		if c.Part == "slaveconn" || c.Part == "getconn" || (c.Part == "next" && len(c.Weights) >= 3) {
			rec.Sample(map[string]interface{}{"case": c, "picks": r.Picks, "clause": r.Clause})
		}
	}

	if p := kit.ReplayPath(); p != "" {
		var c c25Case
		if err := kit.LoadReplay(p, &c); err != nil {
			t.Fatal(err)
		}
		runOne(c)
		return
	}

	// (1) balancer.next over every weight vector in {0..8}^<=4, plain and near the wrap
	var enum func(prefix []int, maxLen int)
	enum = func(prefix []int, maxLen int) {
		if len(prefix) > 0 {
			ws := append([]int(nil), prefix...)
			runOne(c25Case{Part: "next", Weights: ws})
			runOne(c25Case{Part: "next", Weights: ws, NearWrap: true})
		}
		if len(prefix) == maxLen {
			return
		}
		for w := 0; w <= 8; w++ {
			enum(append(prefix, w), maxLen)
		}
	}
	enum(nil, 4)
	rec.Set("next.exhaustive_weight_vectors", "all vectors in {0..8}^n, n=1..4, each plain and with nextIndex=2^32-W-3")

	// (2) sampled longer vectors for next
	r := kit.SubRand(kit.Seed(), "C25/next-long")
	for i, n := 0, kit.N(1500, 60000); i < n; i++ {
		l := r.Range(5, 6)
		ws := make([]int, l)
		for j := range ws {
			if !r.Chance(1, 6) {
				ws[j] = r.Range(1, 8)
			}
		}
		runOne(c25Case{Part: "next", Weights: ws, NearWrap: r.Bool()})
	}

	// (3) Slice.GetSlaveConn over sampled lists
	r = kit.SubRand(kit.Seed(), "C25/slaveconn")
	gen := func(r *kit.Rand) c25Case {
		l := r.Range(1, 6)
		c := c25Case{Part: "slaveconn", Weights: make([]int, l), Local: make([]bool, l), Up: make([]bool, l), Policy: r.Intn(3), NearWrap: r.Chance(1, 3)}
		allUp := r.Chance(1, 2)
		localBias := r.Intn(4) // 0: all local, 3: mostly remote
		for j := 0; j < l; j++ {
			if !r.Chance(1, 6) {
				c.Weights[j] = r.Range(1, 8)
			}
			c.Local[j] = r.Intn(4) >= localBias
			c.Up[j] = allUp || r.Chance(2, 3)
		}
		return c
	}
	for i, n := 0, kit.N(6000, 400000); i < n; i++ {
		runOne(gen(r))
	}

	// (3b) the entry point Slice.GetConn: user type x policy x fallback, three independent groups
	r = kit.SubRand(kit.Seed(), "C25/getconn")
	for i, n := 0, kit.N(4500, 150000); i < n; i++ {
		c := c25Case{Part: "getconn", UserType: i % 3, Policy: (i / 3) % 3, Fallback: []string{"off", "on"}[(i/9)%2]}
		for g := 0; g < 3; g++ {
			gc := gen(r)
			gc.Part, gc.NearWrap, gc.Policy = "", false, 0
			c.Groups = append(c.Groups, gc)
		}
		runOne(c)
	}

	// (4) concurrency: exact multiset
	r = kit.SubRand(kit.Seed(), "C25/conc")
	for i, n := 0, kit.N(60, 1500); i < n; i++ {
		c := gen(r)
		c.NearWrap = false
		c.G = []int{2, 4, 8, 16}[r.Intn(4)]
		c.K = c.G * r.Range(2, 20)
		if r.Bool() {
			c.Part = "conc-next"
		} else {
			c.Part = "conc-slaveconn"
		}
		runOne(c)
	}

	// (5) selections concurrent with status marks (race detector is the oracle)
	r = kit.SubRand(kit.Seed(), "C25/status-race")
	for i, n := 0, kit.N(6, 30); i < n; i++ {
		l := r.Range(3, 6)
		c := c25Case{Part: "status-race", Weights: make([]int, l), Local: make([]bool, l), Up: make([]bool, l), Policy: i % 3, G: 4}
		for j := 0; j < l; j++ {
			c.Weights[j] = r.Range(0, 8)
			c.Local[j] = r.Bool()
		}
		c.Weights[0], c.Weights[1] = r.Range(1, 8), r.Range(1, 8)
		c.Local[0], c.Local[1] = true, true
		c.Local[2] = false
		runOne(c)
	}

	keys := []string{}
	for _, k := range []string{"next.draws", "slaveconn.selections", "slaveconn.refused", "getconn.selections", "concurrent.cases", "statusrace.selections"} {
		keys = append(keys, fmt.Sprintf("%s=%d", k, rec.CounterValue(k)))
	}
	sort.Strings(keys)
	rec.Set("observed", strings.Join(keys, " "))
	if rec.CounterValue("next.draws") == 0 || rec.CounterValue("slaveconn.selections") == 0 {
		rec.Inconclusive("no selections were observed")
	}
}
