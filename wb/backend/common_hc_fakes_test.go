package backend

// Shared helpers of the monitors C25..C28 (tag hc): hand-written fakes of the interfaces in
// backend/interface.go with scripted behaviour, a virtual clock for hook H1, a silent
// logger and a reference sliding-window counter. Nothing here reads the wall clock.

import (
	"context"
	"fmt"
	"sync"
	"sync/atomic"
	"time"

	"github.com/XiaoMi/Gaea/log"
	"github.com/XiaoMi/Gaea/mysql"
)

// ---------------------------------------------------------------------------------------
// silent logger (the default console logger at debug level would print every probe round)

type hcNopLogger struct{}

func (hcNopLogger) SetLevel(name, level string) error                    { return nil }
func (hcNopLogger) Debug(format string, a ...interface{}) error          { return nil }
func (hcNopLogger) Trace(format string, a ...interface{}) error          { return nil }
func (hcNopLogger) Notice(format string, a ...interface{}) error         { return nil }
func (hcNopLogger) Warn(format string, a ...interface{}) error           { return nil }
func (hcNopLogger) Fatal(format string, a ...interface{}) error          { return nil }
func (hcNopLogger) Debugx(logID, format string, a ...interface{}) error  { return nil }
func (hcNopLogger) Tracex(logID, format string, a ...interface{}) error  { return nil }
func (hcNopLogger) Noticex(logID, format string, a ...interface{}) error { return nil }
func (hcNopLogger) Warnx(logID, format string, a ...interface{}) error   { return nil }
func (hcNopLogger) Fatalx(logID, format string, a ...interface{}) error  { return nil }
func (hcNopLogger) Close()                                               {}
func (hcNopLogger) Dropped(i int) uint64                                 { return 0 }

var hcLogOnce sync.Once

func hcSilenceLog() {
	hcLogOnce.Do(func() { log.SetGlobalLogger(hcNopLogger{}) })
}

// ---------------------------------------------------------------------------------------
// virtual clock (hook H1)

type hcClock struct {
	sec  int64 // atomic
	nsec int64 // atomic, sub-second part (the code under test must ignore it)
	read int64 // atomic, number of reads by the code under test
}

func (c *hcClock) Now() time.Time {
	atomic.AddInt64(&c.read, 1)
	return time.Unix(atomic.LoadInt64(&c.sec), atomic.LoadInt64(&c.nsec))
}
func (c *hcClock) Sec() int64      { return atomic.LoadInt64(&c.sec) }
func (c *hcClock) Set(s int64)     { atomic.StoreInt64(&c.sec, s) }
func (c *hcClock) Advance(d int64) { atomic.AddInt64(&c.sec, d) }
func (c *hcClock) SetNsec(n int64) { atomic.StoreInt64(&c.nsec, n) }
func (c *hcClock) Reads() int64    { return atomic.LoadInt64(&c.read) }
func hcInstallClock(start int64) *hcClock {
	c := &hcClock{sec: start}
	VerifSetClock(c.Now)
	return c
}

// ---------------------------------------------------------------------------------------
// fake PooledConnect

type hcConn struct {
	pool   *hcPool
	id     int64
	closed int32
	// scripted behaviour; nil means success with an empty OK result
	execFn func(c *hcConn, sql string) (*mysql.Result, error)
	pingFn func(c *hcConn) error

	closes   int64
	recycles int64
	execs    int64
	pings    int64
}

func (c *hcConn) Recycle()         { atomic.AddInt64(&c.recycles, 1) }
func (c *hcConn) Reconnect() error { atomic.StoreInt32(&c.closed, 0); return nil }
func (c *hcConn) Close() {
	atomic.AddInt64(&c.closes, 1)
	atomic.StoreInt32(&c.closed, 1)
}
func (c *hcConn) IsClosed() bool        { return atomic.LoadInt32(&c.closed) == 1 }
func (c *hcConn) UseDB(db string) error { return nil }
func (c *hcConn) Execute(sql string, maxRows int) (*mysql.Result, error) {
	atomic.AddInt64(&c.execs, 1)
	if c.execFn != nil {
		return c.execFn(c, sql)
	}
	return &mysql.Result{}, nil
}
func (c *hcConn) ExecuteWithTimeout(sql string, maxRows int, timeout time.Duration) (*mysql.Result, error) {
	return c.Execute(sql, maxRows)
}
func (c *hcConn) SetAutoCommit(v uint8) error { return nil }
func (c *hcConn) Begin() error                { return nil }
func (c *hcConn) Commit() error               { return nil }
func (c *hcConn) Rollback() error             { return nil }
func (c *hcConn) Ping() error {
	atomic.AddInt64(&c.pings, 1)
	if c.pingFn != nil {
		return c.pingFn(c)
	}
	return nil
}
func (c *hcConn) PingWithTimeout(timeout time.Duration) error { return c.Ping() }
func (c *hcConn) SetCharset(charset string, collation mysql.CollationID) (bool, error) {
	return false, nil
}
func (c *hcConn) FieldList(table string, wildcard string) ([]*mysql.Field, error) { return nil, nil }
func (c *hcConn) GetAddr() string {
	if c.pool != nil {
		return c.pool.addr
	}
	return ""
}
func (c *hcConn) SetSessionVariables(frontend *mysql.SessionVariables) (bool, error) {
	return false, nil
}
func (c *hcConn) SyncSessionVariables(frontend *mysql.SessionVariables) error { return nil }
func (c *hcConn) WriteSetStatement() error                                    { return nil }
func (c *hcConn) GetConnectionID() int64                                      { return c.id }
func (c *hcConn) GetReturnTime() time.Time                                    { return time.Time{} }
func (c *hcConn) MoreRowsExist() bool                                         { return false }
func (c *hcConn) MoreResultsExist() bool                                      { return false }
func (c *hcConn) FetchMoreRows(result *mysql.Result, maxRows int) error       { return nil }
func (c *hcConn) ReadMoreResult(maxRows int) (*mysql.Result, error)           { return nil, nil }

// ---------------------------------------------------------------------------------------
// fake ConnectionPool

type hcPool struct {
	id    int
	addr  string
	dc    string
	clock *hcClock // SetLastChecked stamps the virtual clock

	lastChecked int64 // atomic
	gets        int64 // atomic
	checks      int64 // atomic
	stamps      int64 // atomic, SetLastChecked calls

	// scripted behaviour; nil means "succeed with a fresh connection"
	getFn   func(p *hcPool) (PooledConnect, error)
	checkFn func(p *hcPool) (PooledConnect, error)
}

func hcNewPool(id int, dc string, clock *hcClock) *hcPool {
	p := &hcPool{id: id, addr: fmt.Sprintf("10.0.0.%d:3306", id), dc: dc, clock: clock}
	if clock != nil {
		p.lastChecked = clock.Sec()
	}
	return p
}

func (p *hcPool) Open() error        { return nil }
func (p *hcPool) Addr() string       { return p.addr }
func (p *hcPool) Datacenter() string { return p.dc }
func (p *hcPool) Close()             {}
func (p *hcPool) Get(ctx context.Context) (PooledConnect, error) {
	n := atomic.AddInt64(&p.gets, 1)
	if p.getFn != nil {
		return p.getFn(p)
	}
	return &hcConn{pool: p, id: n}, nil
}
func (p *hcPool) GetCheck(ctx context.Context) (PooledConnect, error) {
	n := atomic.AddInt64(&p.checks, 1)
	if p.checkFn != nil {
		return p.checkFn(p)
	}
	return &hcConn{pool: p, id: -n}, nil
}
func (p *hcPool) Put(pc PooledConnect)                     {}
func (p *hcPool) SetCapacity(capacity int) (err error)     { return nil }
func (p *hcPool) SetIdleTimeout(idleTimeout time.Duration) {}
func (p *hcPool) StatsJSON() string                        { return "{}" }
func (p *hcPool) Capacity() int64                          { return 8 }
func (p *hcPool) Available() int64                         { return 8 }
func (p *hcPool) Active() int64                            { return 0 }
func (p *hcPool) InUse() int64                             { return 0 }
func (p *hcPool) MaxCap() int64                            { return 8 }
func (p *hcPool) WaitCount() int64                         { return 0 }
func (p *hcPool) WaitTime() time.Duration                  { return 0 }
func (p *hcPool) IdleTimeout() time.Duration               { return 0 }
func (p *hcPool) IdleClosed() int64                        { return 0 }
func (p *hcPool) SetLastChecked() {
	atomic.AddInt64(&p.stamps, 1)
	if p.clock != nil {
		atomic.StoreInt64(&p.lastChecked, p.clock.Sec())
	}
}
func (p *hcPool) GetLastChecked() int64 { return atomic.LoadInt64(&p.lastChecked) }

var _ ConnectionPool = (*hcPool)(nil)
var _ PooledConnect = (*hcConn)(nil)

// ---------------------------------------------------------------------------------------
// reference of the breaker's window: a multiset of timestamps (C26, C27, C28)

type hcRefWindow struct {
	w, min int64
	ts     []int64
}

// record adds one connection error at second t and says whether the number of errors in
// (t-w, t] (this one included) has reached min.
func (r *hcRefWindow) record(t int64) bool {
	if r.w <= 0 || r.min <= 0 {
		return false
	}
	r.ts = append(r.ts, t)
	return r.count(t) >= r.min
}

func (r *hcRefWindow) count(t int64) int64 {
	var n int64
	for _, x := range r.ts {
		if x > t-r.w && x <= t {
			n++
		}
	}
	return n
}

// ---------------------------------------------------------------------------------------
// small helpers

func hcStatusName(s StatusCode) string {
	if s == StatusUp {
		return "up"
	}
	return "down"
}

// hcNode builds a replica node with a fake pool.
func hcNode(id int, weight int, dc string, up bool, clock *hcClock) (*NodeInfo, *hcPool) {
	p := hcNewPool(id, dc, clock)
	st := StatusDown
	if up {
		st = StatusUp
	}
	return &NodeInfo{Address: p.addr, Datacenter: dc, Weight: weight, ConnPool: p, Status: st}, p
}

// hcEnableFuse repeats what proxy/server.parseSlices does for one DBInfo.
func hcEnableFuse(s *Slice, d *DBInfo) error {
	if s.IsFuseEnabled() {
		return s.InitFuseRecoveryPolicy(d)
	}
	return nil
}

func hcGCD(a, b int) int {
	for b != 0 {
		a, b = b, a%b
	}
	return a
}
