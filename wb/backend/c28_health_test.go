package backend

// C28 — health checks mark nodes down and up according to the probe history.
//
// Monitor: scripted probe rounds are executed by the real code on fake pools with the H1
// clock and the node status is compared with a reference status machine after EVERY round.
//   replicas: the real Slice.TryRecover (checkWithNoRecovery / checkWithHardRecovery /
//             checkWithGradualRecovery -> checkInstanceStatus, checkSlaveSyncStatus,
//             GetSlaveStatus), called once per round as checkBackendSlaveStatus does; the
//             master's status is an input of the round. The `show slave status` answer is
//             built through the real text-protocol decoder (RowData.ParseText) with the
//             column typed the way a server may type it (unsigned BIGINT, signed BIGINT, NULL).
//   master:   the real Slice.checkBackendMasterStatus goroutine with its real 4 s ticker;
//             each master lives in its own goroutine with its own virtual clock (the clock
//             hook dispatches on the calling goroutine), a round begins when the loop calls
//             GetCheck on the fake pool, and the status produced by round k is read by the
//             same goroutine at the beginning of round k+1. The wall clock paces the rounds
//             but decides nothing.
// Reference (from the statement): down when clock - lastPass >= downAfter; replica down when
// (master up, probe passed, limit != 0, status not skipped) lag > limit or a replication
// thread is not "Yes"; up after a round whose probe passed (hard policy: not before fuse
// time + cool-down; gradual policy: at the latest after 7 such rounds since the last failed
// probe); otherwise unchanged. With the master down the lag check is not demanded and an
// up-mark is only permitted, never demanded.

import (
	"context"
	"errors"
	"fmt"
	"runtime"
	"strings"
	"sync"
	"sync/atomic"
	"testing"
	"time"

	"github.com/XiaoMi/Gaea/mysql"
	kit "github.com/XiaoMi/Gaea/verifkit"
)

const c28HealthSQL = "/*hc*/ select @@global.read_only"

type c28Round struct {
	Adv    int64  `json:"adv"`              // clock advance before the round
	Master string `json:"master,omitempty"` // up | down (replica histories)
	Probe  string `json:"probe"`            // ok | getcheck | ping | select1 | sqlfatal | sqltimeout | sqlretry | sqlfallback
	Repl   string `json:"repl,omitempty"`   // ok | lag | io | sql | both | priv | empty
	Lag    int64  `json:"lag,omitempty"`
	LagTyp string `json:"lag_type,omitempty"` // unsigned | signed | null
	Fuse   bool   `json:"fuse,omitempty"`     // hard nodes: a burst of min connection errors before the round
}

type c28Case struct {
	Part      string     `json:"part"`   // replica | master
	Policy    string     `json:"policy"` // none | hard | gradual (replica)
	DownAfter int        `json:"down_after"`
	LagLimit  int        `json:"lag_limit"`
	Cool      int64      `json:"cooldown,omitempty"`
	HealthSQL bool       `json:"health_sql"`
	StartUp   bool       `json:"start_up"`
	Rounds    []c28Round `json:"rounds"`
}

type c28Fail struct {
	Clause string
	Detail string
	At     int
}

// ---------------------------------------------------------------------------------------
// probe script -> fake connection

func c28ProbePasses(probe string, healthSQL bool) bool {
	switch probe {
	case "ok", "sqlretry", "sqlfallback":
		return true
	}
	return false
}

// c28Conn builds the check connection for one round.
func c28Conn(p *hcPool, rd c28Round, healthSQL bool) (PooledConnect, error) {
	if rd.Probe == "getcheck" {
		return nil, errors.New("get conn timeout")
	}
	sqlFails := 0
	cn := &hcConn{pool: p}
	cn.pingFn = func(*hcConn) error {
		if rd.Probe == "ping" {
			return errors.New("write: broken pipe")
		}
		return nil
	}
	cn.execFn = func(c *hcConn, sql string) (*mysql.Result, error) {
		switch sql {
		case c28HealthSQL:
			switch rd.Probe {
			case "sqlfatal":
				return nil, mysql.NewError(mysql.ErrServerShutdown, "Server shutdown in progress")
			case "sqltimeout":
				return nil, ErrExecuteTimeout
			case "sqlretry":
				if sqlFails < 2 {
					sqlFails++
					return nil, mysql.NewError(mysql.ErrNoSuchTable, "Table 'x.y' doesn't exist")
				}
			case "sqlfallback", "ping", "select1":
				return nil, mysql.NewError(mysql.ErrNoSuchTable, "Table 'x.y' doesn't exist")
			}
			return &mysql.Result{}, nil
		case "select 1":
			if rd.Probe == "select1" {
				return nil, errors.New("read: connection reset by peer")
			}
			return &mysql.Result{}, nil
		case "show slave status;":
			return c28SlaveStatus(rd)
		}
		return &mysql.Result{}, nil
	}
	return cn, nil
}

func c28LenEnc(b []byte, s string, null bool) []byte {
	if null {
		return append(b, 0xfb)
	}
	b = append(b, byte(len(s))) // all values are shorter than 251 bytes
	return append(b, s...)
}

// c28SlaveStatus builds the answer to `show slave status` through the real text decoder.
func c28SlaveStatus(rd c28Round) (*mysql.Result, error) {
	if rd.Repl == "priv" {
		return nil, mysql.NewError(mysql.ErrSpecificAccessDenied, "Access denied; you need (at least one of) the SUPER, REPLICATION CLIENT privilege(s) for this operation")
	}
	type col struct {
		name string
		typ  uint8
		flag uint16
		val  string
		null bool
	}
	io, sq := "Yes", "Yes"
	if rd.Repl == "io" || rd.Repl == "both" {
		io = "Connecting"
	}
	if rd.Repl == "sql" || rd.Repl == "both" {
		sq = "No"
	}
	lagFlag := uint16(mysql.BinaryFlag)
	if rd.LagTyp == "unsigned" {
		lagFlag |= uint16(mysql.UnsignedFlag)
	}
	cols := []col{
		{"Slave_IO_State", mysql.TypeVarString, 0, "Waiting for master to send event", false},
		{"Master_Host", mysql.TypeVarString, 0, "10.0.0.1", false},
		{"Master_Log_File", mysql.TypeVarString, 0, "mysql-bin.000042", false},
		{"Read_Master_Log_Pos", mysql.TypeLonglong, uint16(mysql.UnsignedFlag | mysql.BinaryFlag), "154", false},
		{"Relay_Master_Log_File", mysql.TypeVarString, 0, "mysql-bin.000042", false},
		{"Slave_IO_Running", mysql.TypeVarString, 0, io, false},
		{"Slave_SQL_Running", mysql.TypeVarString, 0, sq, false},
		{"Exec_Master_Log_Pos", mysql.TypeLonglong, uint16(mysql.UnsignedFlag | mysql.BinaryFlag), "154", false},
		{"Seconds_Behind_Master", mysql.TypeLonglong, lagFlag, fmt.Sprint(rd.Lag), rd.LagTyp == "null"},
	}
	rs := &mysql.Resultset{FieldNames: map[string]int{}}
	if rd.Repl == "empty" {
		for i, c := range cols {
			rs.Fields = append(rs.Fields, &mysql.Field{Name: []byte(c.name), Type: c.typ, Flag: c.flag})
			rs.FieldNames[c.name] = i
		}
		return &mysql.Result{Resultset: rs}, nil
	}
	var row []byte
	for i, c := range cols {
		rs.Fields = append(rs.Fields, &mysql.Field{Name: []byte(c.name), Type: c.typ, Flag: c.flag})
		rs.FieldNames[c.name] = i
		row = c28LenEnc(row, c.val, c.null)
	}
	vals, err := mysql.RowData(row).ParseText(rs.Fields)
	if err != nil {
		return nil, fmt.Errorf("harness: cannot decode own row: %v", err)
	}
	rs.RowDatas = append(rs.RowDatas, mysql.RowData(row))
	rs.Values = append(rs.Values, vals)
	return &mysql.Result{Resultset: rs}, nil
}

// c28ReplBad: does the statement demand "down" for this replication status?
func c28ReplBad(rd c28Round, limit int) bool {
	if limit == 0 || rd.Repl == "priv" || rd.Repl == "empty" {
		return false
	}
	if rd.Repl == "io" || rd.Repl == "sql" || rd.Repl == "both" {
		return true
	}
	if rd.LagTyp != "null" && rd.Lag > int64(limit) {
		return true
	}
	return false
}

// ---------------------------------------------------------------------------------------
// clock dispatch: master goroutines carry their own clock

var (
	c28MainClock   *hcClock
	c28WorldClocks sync.Map // goroutine id -> *int64 (seconds)
	c28WorldCount  int64
)

func c28Gid() uint64 {
	var buf [64]byte
	n := runtime.Stack(buf[:], false)
	// "goroutine 123 [running]:"
	var id uint64
	for _, ch := range buf[10:n] {
		if ch < '0' || ch > '9' {
			break
		}
		id = id*10 + uint64(ch-'0')
	}
	return id
}

func c28Now() time.Time {
	if atomic.LoadInt64(&c28WorldCount) > 0 {
		if v, ok := c28WorldClocks.Load(c28Gid()); ok {
			return time.Unix(atomic.LoadInt64(v.(*int64)), 0)
		}
	}
	return c28MainClock.Now()
}

// ---------------------------------------------------------------------------------------
// replica histories (synchronous)

func c28RunReplica(c c28Case) []*c28Fail {
	f, _ := c28RunReplicaN(c)
	return f
}

func c28Has(fs []*c28Fail, clause string) *c28Fail {
	for _, f := range fs {
		if f.Clause == clause {
			return f
		}
	}
	return nil
}

// c28RunReplicaN also returns how often the node changed status. A refuted clause does not
// end the history: the first failure per clause is recorded and the history continues from
// the observed status, so that a known finding cannot hide a different one later.
func c28RunReplicaN(c c28Case) ([]*c28Fail, int) {
	changes := 0
	var fails []*c28Fail
	addFail := func(f *c28Fail) {
		if c28Has(fails, f.Clause) == nil {
			fails = append(fails, f)
		}
	}
	clock := c28MainClock
	clock.Set(1700000000)
	mnode, _ := hcNode(0, 1, "dc", true, clock)
	node, pool := hcNode(1, 1, "dc", c.StartUp, clock)
	s := &Slice{Namespace: "c28", FuseEnabled: "on", FuseWindowSize: 4, FuseMinErrorCount: 2}
	switch c.Policy {
	case "none":
		s.FuseEnabled = "off"
	case "hard":
		s.FuseCooldownPeriod = c.Cool
	}
	if c.HealthSQL {
		s.HealthCheckSql = c28HealthSQL
	}
	s.Master = &DBInfo{Nodes: []*NodeInfo{mnode}}
	s.Slave = &DBInfo{Nodes: []*NodeInfo{node}}
	if err := hcEnableFuse(s, s.Slave); err != nil {
		return []*c28Fail{{Clause: "setup", Detail: err.Error()}}, 0
	}
	clock.Advance(20)
	pool.SetLastChecked()
	var cur c28Round
	pool.checkFn = func(p *hcPool) (PooledConnect, error) { return c28Conn(p, cur, c.HealthSQL) }
	connErr := mysql.NewConnTypeError(pool.addr, "failed to dial within timeout")
	pool.getFn = func(p *hcPool) (PooledConnect, error) { return nil, connErr }

	lastPass := clock.Sec()
	// takenDown: second until which (exclusive of the cool-down) the hard policy forbids a
	// recovery = the LATEST time the breaker fired during the current breaker-caused down
	// period ("cool-down since its latest fuse"); 0 when the node is not down by the breaker.
	var takenDown, latestTrigger int64
	fusedDown := false
	okSinceFail := int64(1000) // rounds that reached the recovery step since the last failed probe
	for i, rd := range c.Rounds {
		cur = rd
		clock.Advance(rd.Adv)
		t := clock.Sec()
		if rd.Master == "down" {
			mnode.SetStatusDown()
		} else {
			mnode.SetStatusUp()
		}
		if rd.Fuse && c.Policy == "hard" {
			wasUp := node.IsStatusUp()
			if wasUp {
				changes++
			}
			for k := 0; k < 2; k++ {
				s.getConnWithFuse(node)
			}
			if node.IsStatusUp() {
				addFail(&c28Fail{Clause: "breaker-missed", Detail: fmt.Sprintf("round %d", i), At: i})
			}
			latestTrigger = t
			if wasUp {
				fusedDown = true
			}
			if fusedDown {
				takenDown = t
			}
		}
		before := node.IsStatusUp()
		if err := s.TryRecover(node, c.DownAfter, c.LagLimit); err != nil {
			addFail(&c28Fail{Clause: "tryrecover-error", Detail: err.Error(), At: i})
		}
		after := node.IsStatusUp()

		pass := c28ProbePasses(rd.Probe, c.HealthSQL)
		if pass {
			lastPass = t
		} else {
			okSinceFail = 0
		}
		mayUp, mayDown := false, false
		why := ""
		switch {
		case t-lastPass >= int64(c.DownAfter):
			mayDown, why = true, fmt.Sprintf("no passed probe for %ds >= down-after %d", t-lastPass, c.DownAfter)
		case rd.Master == "down":
			if before {
				mayUp, why = true, "master down: nothing may mark an up replica down"
			} else {
				mayDown = true
				why = "master down: a down replica may stay down"
				if pass && (c.Policy != "hard" || t >= takenDown+c.Cool) {
					mayUp = true
				}
			}
		case pass && c28ReplBad(rd, c.LagLimit):
			mayDown, why = true, fmt.Sprintf("replication status %s lag=%d(%s) limit=%d", rd.Repl, rd.Lag, rd.LagTyp, c.LagLimit)
		case !before && pass:
			okSinceFail++
			switch c.Policy {
			case "none":
				mayUp, why = true, "probe passed, replication fine"
			case "hard":
				mayUp = t >= takenDown+c.Cool
				mayDown = t < latestTrigger+c.Cool
				why = fmt.Sprintf("probe passed; breaker took node down at %d, last fired at %d, cool-down %d", takenDown, latestTrigger, c.Cool)
			case "gradual":
				mayUp = true
				if okSinceFail <= 6 {
					mayDown = true
				}
				why = fmt.Sprintf("probe passed; %d recovery-eligible round(s) since the last failed probe", okSinceFail)
			}
		default:
			mayUp, mayDown, why = before, !before, "nothing happened that may change the status"
		}
		if (after && !mayUp) || (!after && !mayDown) {
			cl := c28Classify(c, rd, before, after, pass, t, lastPass, takenDown)
			addFail(&c28Fail{Clause: cl, At: i, Detail: fmt.Sprintf("round %d at t=%d (master %s, probe %s, repl %s lag=%d/%s): status %s -> %s; reference: %s", i, t, rd.Master, rd.Probe, rd.Repl, rd.Lag, rd.LagTyp, c28UpDown(before), c28UpDown(after), why)})
		}
		if before != after {
			changes++
		}
		if after {
			fusedDown, takenDown = false, 0
		}
	}
	return fails, changes
}

func c28UpDown(up bool) string {
	if up {
		return "up"
	}
	return "down"
}

// ---------------------------------------------------------------------------------------
// real-pool scenario: the bookkeeping of "last passed probe" of a pool that has never passed
// one comes from the REAL constructor (Slice.ParseSlave -> NewConnectionPool + Open, never
// dialled). The real pool stamps the wall clock, so here - and only here - the virtual clock
// is set once to the wall clock at creation; the verdict is only "down at once or not".

type c28RealLC struct {
	ConnectionPool // the real connectionPoolImpl: SetLastChecked / GetLastChecked are its own
}

func (p *c28RealLC) GetCheck(ctx context.Context) (PooledConnect, error) {
	return nil, errors.New("dial tcp: connect: connection refused")
}

func c28RunRealPool(policy string, downAfter int) []*c28Fail {
	clock := c28MainClock
	clock.Set(time.Now().Unix()) // creation time T of the pool, see above
	s := &Slice{Namespace: "c28r", FuseEnabled: "on", FuseWindowSize: 4, FuseMinErrorCount: 2}
	switch policy {
	case "none":
		s.FuseEnabled = "off"
	case "hard":
		s.FuseCooldownPeriod = 5
	}
	if err := s.ParseSlave([]string{"127.0.0.1:1@1#dc"}); err != nil {
		return []*c28Fail{{Clause: "setup", Detail: err.Error()}}
	}
	mnode, _ := hcNode(0, 1, "dc", true, clock)
	s.Master = &DBInfo{Nodes: []*NodeInfo{mnode}}
	if err := hcEnableFuse(s, s.Slave); err != nil || len(s.Slave.Nodes) != 1 {
		return []*c28Fail{{Clause: "setup", Detail: fmt.Sprint(err)}}
	}
	node := s.Slave.Nodes[0]
	realPool := node.ConnPool
	defer realPool.Close()
	node.ConnPool = &c28RealLC{ConnectionPool: realPool}
	var fails []*c28Fail
	// round 1: the first probe after creation fails; T + 0 < T + downAfter: must stay up
	s.TryRecover(node, downAfter, 0)
	if !node.IsStatusUp() {
		fails = append(fails, &c28Fail{Clause: "down-at-first-failed-probe-after-pool-creation/" + policy,
			Detail: fmt.Sprintf("pool created at T, first probe round at T fails: node marked down although down-after is %ds (pool reports last check %d, T=%d)", downAfter, realPool.GetLastChecked(), clock.Sec())})
		node.SetStatusUp()
	}
	// round 2: still failing at T + downAfter + 1: now it must go down
	clock.Advance(int64(downAfter) + 1)
	s.TryRecover(node, downAfter, 0)
	if node.IsStatusUp() {
		fails = append(fails, &c28Fail{Clause: "not-down-after-no-alive-since-pool-creation/" + policy,
			Detail: fmt.Sprintf("no probe passed for %ds since the pool was created, down-after %d, node still up", downAfter+1, downAfter)})
	}
	return fails
}

// c28Classify names the oracle clause from structured features of the failing round.
func c28Classify(c c28Case, rd c28Round, before, after, pass bool, t, lastPass, takenDown int64) string {
	m := "master-up"
	if rd.Master == "down" {
		m = "master-down"
	}
	switch {
	case after && pass && rd.Master != "down" && t-lastPass < int64(c.DownAfter) && c28ReplBad(rd, c.LagLimit):
		what := rd.Repl
		if rd.Repl == "lag" || rd.Repl == "ok" {
			what = "lag-" + rd.LagTyp
		}
		return "replication-bad-not-down/" + what
	case !before && after && !pass:
		return "up-without-passed-probe/" + m + "/" + c.Policy
	case !before && after && c.Policy == "hard" && t < takenDown+c.Cool:
		return "up-before-cooldown/" + m
	case !before && after:
		return "up-not-permitted/" + m + "/" + c.Policy
	case before && !after && t-lastPass < int64(c.DownAfter):
		return "down-without-cause/" + m + "/" + c.Policy
	case after && t-lastPass >= int64(c.DownAfter):
		return "not-down-after-no-alive/" + c.Policy
	case !after:
		return "not-up-after-passed-probe/" + m + "/" + c.Policy
	}
	return "other/" + c.Policy
}

// ---------------------------------------------------------------------------------------
// master histories (real goroutine, real ticker, per-goroutine virtual clock)

type c28MasterWorld struct {
	c      c28Case
	now    int64 // atomic; virtual seconds of this world
	node   *NodeInfo
	pool   *hcPool
	calls  int
	obs    []bool // status (up?) produced by round k, read at the start of round k+1
	cancel context.CancelFunc
	done   chan struct{}
}

func c28StartMaster(c c28Case) *c28MasterWorld {
	w := &c28MasterWorld{c: c, now: 1700000020, done: make(chan struct{})}
	w.node, w.pool = hcNode(0, 1, "dc", c.StartUp, nil)
	w.pool.lastChecked = w.now
	s := &Slice{Namespace: "c28m"}
	if c.HealthSQL {
		s.HealthCheckSql = c28HealthSQL
	}
	s.Master = &DBInfo{Nodes: []*NodeInfo{w.node}}
	ctx, cancel := context.WithCancel(context.Background())
	w.cancel = cancel
	// the fake pool runs inside the master goroutine: everything below is single-threaded per world
	w.pool.checkFn = func(p *hcPool) (PooledConnect, error) {
		k := w.calls
		w.calls++
		if k > 0 {
			w.obs = append(w.obs, w.node.IsStatusUp())
		}
		if k >= len(c.Rounds) {
			w.cancel()
			return nil, errors.New("history finished")
		}
		atomic.AddInt64(&w.now, c.Rounds[k].Adv)
		return c28Conn(p, c.Rounds[k], c.HealthSQL)
	}
	// the world's pool stamps the world's clock
	stamp := &c28StampPool{hcPool: w.pool, now: &w.now}
	w.node.ConnPool = stamp
	go func() {
		gid := c28Gid()
		c28WorldClocks.Store(gid, &w.now)
		atomic.AddInt64(&c28WorldCount, 1)
		defer func() {
			c28WorldClocks.Delete(gid)
			atomic.AddInt64(&c28WorldCount, -1)
			close(w.done)
		}()
		s.checkBackendMasterStatus(ctx, c.DownAfter)
	}()
	return w
}

// c28StampPool is hcPool with SetLastChecked reading the world's clock.
type c28StampPool struct {
	*hcPool
	now *int64
}

func (p *c28StampPool) SetLastChecked() {
	atomic.AddInt64(&p.hcPool.stamps, 1)
	atomic.StoreInt64(&p.hcPool.lastChecked, atomic.LoadInt64(p.now))
}

// c28JudgeMaster compares the observed statuses with the reference machine.
func c28JudgeMaster(w *c28MasterWorld) *c28Fail {
	c := w.c
	t := int64(1700000020)
	lastPass := t
	cur := c.StartUp
	for i, rd := range c.Rounds {
		if i >= len(w.obs) {
			return &c28Fail{Clause: "harness/rounds-missing", Detail: fmt.Sprintf("observed %d of %d rounds", len(w.obs), len(c.Rounds)), At: i}
		}
		t += rd.Adv
		pass := c28ProbePasses(rd.Probe, c.HealthSQL)
		if pass {
			lastPass = t
		}
		want := cur
		why := "nothing happened that may change the status"
		switch {
		case t-lastPass >= int64(c.DownAfter):
			want, why = false, fmt.Sprintf("no passed probe for %ds >= down-after %d", t-lastPass, c.DownAfter)
		case pass && !cur:
			want, why = true, "probe passed"
		}
		got := w.obs[i]
		if got != want {
			cl := ""
			switch {
			case got && !cur && !pass:
				cl += "up-without-passed-probe"
			case got && t-lastPass >= int64(c.DownAfter):
				cl += "not-down-after-no-alive"
			case !got && cur:
				cl += "down-without-cause"
			case !got:
				cl += "not-up-after-passed-probe"
			default:
				cl += "other"
			}
			return &c28Fail{Clause: cl, At: i, Detail: fmt.Sprintf("master round %d at t=%d (probe %s): status %s -> %s; reference: %s", i, t, rd.Probe, c28UpDown(cur), c28UpDown(got), why)}
		}
		cur = got
	}
	return nil
}

// ---------------------------------------------------------------------------------------

// c28Shrink removes rounds greedily while the history still refutes the given clause.
func c28Shrink(c c28Case, clause string) c28Case {
	fails := func(x c28Case) bool { return c28Has(c28RunReplica(x), clause) != nil }
	for changed := true; changed; {
		changed = false
		for i := 0; i < len(c.Rounds) && len(c.Rounds) > 1; i++ {
			d := c
			d.Rounds = nil
			for j, rd := range c.Rounds {
				if j == i {
					continue
				}
				if j == i+1 {
					rd.Adv += c.Rounds[i].Adv
				}
				d.Rounds = append(d.Rounds, rd)
			}
			if fails(d) {
				c, changed = d, true
				break
			}
		}
	}
	return c
}

func c28Key(c c28Case) string {
	var sb strings.Builder
	fmt.Fprintf(&sb, "%s/%s/d%d/l%d/c%d/h%v/u%v:", c.Part, c.Policy, c.DownAfter, c.LagLimit, c.Cool, c.HealthSQL, c.StartUp)
	for _, r := range c.Rounds {
		fmt.Fprintf(&sb, "%d%s.%s.%s%d%s%v,", r.Adv, r.Master, r.Probe, r.Repl, r.Lag, r.LagTyp, r.Fuse)
	}
	return kit.Hash64(sb.String())
}

func c28GenRound(r *kit.Rand, c c28Case, replica bool) c28Round {
	rd := c28Round{Adv: []int64{0, 1, 4, 4, 4, int64(c.DownAfter) - 1, int64(c.DownAfter), int64(c.DownAfter) + 1, 40}[r.Intn(9)]}
	if rd.Adv < 0 {
		rd.Adv = 0
	}
	probes := []string{"ok", "ok", "ok", "ok", "getcheck", "ping", "select1"}
	if c.HealthSQL {
		probes = append(probes, "sqlfatal", "sqltimeout", "sqlretry", "sqlfallback")
	}
	rd.Probe = probes[r.Intn(len(probes))]
	if !replica {
		return rd
	}
	rd.Master = "up"
	if r.Chance(1, 4) {
		rd.Master = "down"
	}
	rd.Repl = []string{"ok", "ok", "ok", "lag", "lag", "io", "sql", "both", "priv", "empty"}[r.Intn(10)]
	rd.LagTyp = []string{"unsigned", "unsigned", "signed", "null"}[r.Intn(4)]
	lim := int64(c.LagLimit)
	switch rd.Repl {
	case "lag":
		rd.Lag = []int64{lim + 1, lim + 1, 2*lim + 7, 86400}[r.Intn(4)]
	case "io", "sql", "both":
		rd.LagTyp = []string{"null", "null", "unsigned"}[r.Intn(3)]
		rd.Lag = 0
	default:
		rd.Lag = []int64{0, 0, 1, lim - 1, lim}[r.Intn(5)]
		if rd.Lag < 0 {
			rd.Lag = 0
		}
	}
	if rd.LagTyp == "null" {
		rd.Lag = 0
	}
	if c.Policy == "hard" && r.Chance(1, 8) {
		rd.Fuse = true
	}
	return rd
}

func TestVerif_C28(t *testing.T) {
	hcSilenceLog()
	rec := kit.Start("C28", "exploration", "histories of scripted probe rounds {ok, GetCheck failure, ping failure, select-1 failure, fatal/timeout/transient health-SQL failure} x replication status {fine, lag over limit typed unsigned/signed/NULL, IO/SQL thread stopped, privilege error, empty} x master {up,down} x clock steps {0,1,4,downAfter-1,downAfter,downAfter+1,40} for replicas without recovery policy, with the hard and with the gradual policy (real TryRecover), and for masters (real checkBackendMasterStatus goroutine); non-trivial = distinct histories in which the node changed status at least twice")
	defer rec.Finish(t)
	rec.Assume("a probe in which the configured health SQL keeps failing with an ordinary SQL error while ping and `select 1` succeed is counted by Gaea as passed; the reference follows that reading")
	rec.Assume("with the master down the replication check is not demanded and an up-mark is permitted (after a passed probe) but not demanded")
	rec.Assume("an error of `show slave status` other than the privilege error is not generated (the statement does not say what it means)")
	rec.Assume("real-pool scenario only: the real connectionPoolImpl stamps its creation / last check with the wall clock, so the virtual clock is set once to the wall clock at pool creation; the verdict is only whether the first failed probe marks the node down at once")
	rec.Assume("master rounds are paced by the real 4 s ticker of checkBackendMasterStatus; all time the code under test reads comes from per-goroutine virtual clocks")

	c28MainClock = &hcClock{sec: 1700000000}
	VerifSetClock(c28Now)
	defer VerifSetClock(nil)

	report := func(c c28Case, f *c28Fail) {
		if c.Part == "replica" && !rec.IsKnown(c.Part+"/"+f.Clause) {
			m := c28Shrink(c, f.Clause)
			if mf := c28Has(c28RunReplica(m), f.Clause); mf != nil {
				c, f = m, mf
			}
		}
		rec.Violation(c.Part+"/"+f.Clause, fmt.Sprintf("%s policy=%s downAfter=%d lagLimit=%d cool=%d healthSQL=%v startUp=%v rounds=%+v: %s", c.Part, c.Policy, c.DownAfter, c.LagLimit, c.Cool, c.HealthSQL, c.StartUp, c.Rounds, f.Detail), c)
	}

	if p := kit.ReplayPath(); p != "" {
		var c c28Case
		if err := kit.LoadReplay(p, &c); err != nil {
			t.Fatal(err)
		}
		rec.Eval(1)
		if c.Part == "realpool" {
			for _, f := range c28RunRealPool(c.Policy, c.DownAfter) {
				rec.Violation("realpool/"+f.Clause, f.Detail, c)
			}
			return
		}
		if c.Part == "master" {
			w := c28StartMaster(c)
			select {
			case <-w.done:
			case <-time.After(time.Duration(len(c.Rounds)+2)*4*time.Second + 2*time.Minute):
				rec.Inconclusive("master goroutine did not finish")
				return
			}
			if f := c28JudgeMaster(w); f != nil {
				report(c, f)
			}
		} else {
			for _, f := range c28RunReplica(c) {
				report(c, f)
			}
		}
		return
	}

	// ---- master lane: start the real goroutines first, they take (rounds+1) x 4 s of wall time
	rm := kit.SubRand(kit.Seed(), "C28/master")
	nMaster, lenMaster := kit.N(3000, 30000), kit.N(4, 10)
	worlds := make([]*c28MasterWorld, 0, nMaster)
	for i := 0; i < nMaster; i++ {
		c := c28Case{Part: "master", DownAfter: []int{1, 4, 5, 8, 9, 32}[rm.Intn(6)], HealthSQL: rm.Bool(), StartUp: rm.Chance(3, 4)}
		for j := 0; j < lenMaster; j++ {
			c.Rounds = append(c.Rounds, c28GenRound(rm, c, false))
		}
		worlds = append(worlds, c28StartMaster(c))
	}

	// ---- replica lane (synchronous, main goroutine, main clock)
	var rounds, statusChanges int64
	runReplica := func(c c28Case) {
		rec.Eval(1)
		rounds += int64(len(c.Rounds))
		fs, ch := c28RunReplicaN(c)
		for _, f := range fs {
			report(c, f)
		}
		if len(fs) > 0 {
			return
		}
		if ch >= 2 {
			statusChanges += int64(ch)
			rec.Nontrivial(c28Key(c))
			if ch >= 4 {
				rec.Sample(c)
			}
		}
	}
	rr := kit.SubRand(kit.Seed(), "C28/replica")
	for i, n := 0, kit.N(15000, 500000); i < n; i++ {
		c := c28Case{Part: "replica", Policy: []string{"none", "hard", "gradual"}[i%3], DownAfter: []int{4, 5, 8, 9, 32}[rr.Intn(5)],
			LagLimit: []int{0, 1, 30, 30, 300}[rr.Intn(5)], HealthSQL: rr.Bool(), StartUp: rr.Chance(3, 4)}
		if c.Policy == "hard" {
			c.Cool = []int64{1, 4, 9, 60}[rr.Intn(4)]
		}
		for j, l := 0, rr.Range(2, 30); j < l; j++ {
			c.Rounds = append(c.Rounds, c28GenRound(rr, c, true))
		}
		runReplica(c)
	}
	rec.Count("replica.rounds", rounds)
	rec.Count("replica.status_changes", statusChanges)

	// ---- real-pool scenario (creation-time bookkeeping of the real constructor)
	for _, pol := range []string{"none", "hard", "gradual"} {
		for _, da := range []int{8, 32, 3600} {
			rec.Eval(1)
			rec.Count("realpool.scenarios", 1)
			for _, f := range c28RunRealPool(pol, da) {
				rec.Violation("realpool/"+f.Clause, fmt.Sprintf("real connection pool (Slice.ParseSlave), policy=%s down-after=%d: %s", pol, da, f.Detail), map[string]interface{}{"part": "realpool", "policy": pol, "down_after": da})
			}
		}
	}
	c28MainClock.Set(1700000000)

	// ---- collect the master lane
	deadline := time.After(time.Duration(lenMaster+2)*4*time.Second + 5*time.Minute) // watchdog only
	finished := 0
	for _, w := range worlds {
		select {
		case <-w.done:
			finished++
		case <-deadline:
			rec.Inconclusive(fmt.Sprintf("only %d of %d master goroutines finished before the watchdog", finished, len(worlds)))
			for _, x := range worlds {
				x.cancel()
			}
			return
		}
	}
	var mrounds, mchanges int64
	for _, w := range worlds {
		rec.Eval(1)
		mrounds += int64(len(w.obs))
		if f := c28JudgeMaster(w); f != nil {
			report(w.c, f)
			continue
		}
		ch, cur := 0, w.c.StartUp
		for _, o := range w.obs {
			if o != cur {
				ch++
				cur = o
			}
		}
		if ch >= 2 {
			mchanges += int64(ch)
			rec.Nontrivial(c28Key(w.c))
			if ch >= 3 {
				rec.Sample(w.c)
			}
		}
	}
	rec.Count("master.rounds_observed", mrounds)
	rec.Count("master.status_changes", mchanges)
	rec.Count("master.goroutines", int64(len(worlds)))
	if mrounds == 0 || rounds == 0 {
		rec.Inconclusive("no probe rounds observed")
	}
}
